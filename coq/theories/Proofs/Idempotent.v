(* Idempotent.v — C13: an immediate second claim pays nothing.
   Reward histories are keyed by (reward denom, alliance denom); every validator's history has
   unique keys in every reachable state (only AddAssetsToRewardPool writes it: in-place update of a
   key that exists, append of one that does not).  A claim sets the delegation's history to the
   validator's current one; recomputing the entitlement against that same history accumulates
   nothing. *)
From Coq Require Import ZArith List Bool Lia.
From Alliance Require Import Num KMap KMapFacts KMapSorted Types Monad Model Step Spec Hoare.
Import ListNotations.
Open Scope Z_scope.

Definition rkey (h : RH) : Z * Z := (rh_denom h, rh_alliance h).
Definition rh_uniq (l : list RH) : Prop := NoDup (map rkey l).

Lemma rh_find_some l d a x : rh_find l d a = Some x -> In x l /\ rh_denom x = d /\ rh_alliance x = a.
Proof.
  induction l as [|h l IH]; cbn [rh_find]; [discriminate|].
  destruct ((rh_denom h =? d) && (rh_alliance h =? a)) eqn:E.
  - intros H; inversion H; subst. apply andb_prop in E. destruct E as [E1 E2]. apply Z.eqb_eq in E1, E2. auto with datatypes.
  - intros H. destruct (IH H) as (Hin & H1 & H2). auto with datatypes.
Qed.
Lemma rh_find_none l d a : rh_find l d a = None <-> ~ In (d, a) (map rkey l).
Proof.
  induction l as [|h l IH]; cbn [rh_find map]; [split; auto|].
  destruct ((rh_denom h =? d) && (rh_alliance h =? a)) eqn:E.
  - split; [discriminate|]. intros H; exfalso; apply H. left. unfold rkey.
    apply andb_prop in E. destruct E as [E1 E2]. apply Z.eqb_eq in E1, E2. congruence.
  - rewrite IH. split; intros H.
    + intros [Hk|Hk]; [|exact (H Hk)]. unfold rkey in Hk. inversion Hk; subst. rewrite !Z.eqb_refl in E. discriminate.
    + intros Hk. apply H. right. exact Hk.
Qed.
Lemma rh_find_uniq l h : rh_uniq l -> In h l -> rh_find l (rh_denom h) (rh_alliance h) = Some h.
Proof.
  induction l as [|x l IH]; intros Hu Hin; [destruct Hin|]. cbn [rh_find].
  unfold rh_uniq in Hu. cbn [map] in Hu. inversion Hu as [|? ? Hnot Hu']; subst.
  destruct Hin as [->|Hin]; [rewrite !Z.eqb_refl; reflexivity|].
  destruct ((rh_denom x =? rh_denom h) && (rh_alliance x =? rh_alliance h)) eqn:E; [|apply IH; assumption].
  exfalso. apply Hnot. apply andb_prop in E. destruct E as [E1 E2]. apply Z.eqb_eq in E1, E2.
  replace (rkey x) with (rkey h) by (unfold rkey; congruence). apply in_map. exact Hin.
Qed.

(* nothing accrues against a history that already carries every index *)
Lemma accumulate_skip latest rhs a w d vi :
  (forall h, In h latest -> exists x, rh_find rhs (rh_denom h) (rh_alliance h) = Some x /\ rh_index h <= rh_index x) ->
  accumulate_rewards latest rhs a w d vi = ([], rhs).
Proof.
  unfold accumulate_rewards. set (dt := dec_of_int (del_tokens d vi a)). clearbody dt.
  induction latest as [|h latest IH]; intros H; [reflexivity|]. cbn [fold_left].
  destruct (H h (or_introl eq_refl)) as (x & Hx & Hle). rewrite Hx.
  assert (E : rh_index h <=? rh_index x = true) by (apply Z.leb_le; exact Hle). rewrite E.
  apply IH. intros h' Hin. apply H. right. exact Hin.
Qed.
Lemma accumulate_self l a w d vi : rh_uniq l -> accumulate_rewards l l a w d vi = ([], l).
Proof.
  intros Hu. apply accumulate_skip. intros h Hin. exists h. split; [apply rh_find_uniq; assumption | lia].
Qed.

Lemma rh_by_alliance_idem l a : rh_by_alliance (rh_by_alliance l a) a = rh_by_alliance l a.
Proof.
  unfold rh_by_alliance. induction l as [|h l IH]; [reflexivity|]. cbn [filter].
  destruct ((rh_alliance h =? a) || (rh_alliance h =? -1)) eqn:E; [|exact IH]. cbn [filter]. rewrite E, IH. reflexivity.
Qed.
Lemma rh_uniq_filter l a : rh_uniq l -> rh_uniq (rh_by_alliance l a).
Proof.
  unfold rh_uniq, rh_by_alliance. induction l as [|h l IH]; intros Hu; [constructor|]. cbn [map filter] in *.
  inversion Hu as [|? ? Hnot Hu']; subst. destruct ((rh_alliance h =? a) || (rh_alliance h =? -1)); [|apply IH; exact Hu'].
  cbn [map]. constructor; [|apply IH; exact Hu']. intros Hin. apply Hnot.
  apply in_map_iff in Hin. destruct Hin as (x & Hx & Hin). apply filter_In in Hin. rewrite <- Hx. apply in_map. tauto.
Qed.

Definition no_later_snapshot (s : State) (v : Z) (d : Delegation) (dn : Z) : Prop :=
  kfilter (fun k => match k with
                    | [dn'; v'; h] => (dn' =? dn) && (v' =? v) && (d_height d <=? h) && (h <? MAX_U64)
                    | _ => false end) (snapshots s) = [].

(* the entitlement of a position whose history is the validator's current one is nothing *)
Theorem settled_position_has_nothing_to_claim s v d vi a :
  rh_uniq (vi_hist vi) -> rh_by_alliance (d_hist d) (a_denom a) = rh_by_alliance (vi_hist vi) (a_denom a) ->
  no_later_snapshot s v d (a_denom a) ->
  calculate_delegation_rewards s v d vi a = ([], rh_by_alliance (vi_hist vi) (a_denom a)).
Proof.
  intros Hu Hd Hs. unfold calculate_delegation_rewards. unfold no_later_snapshot in Hs. rewrite Hs. cbn [fold_left].
  rewrite Hd. rewrite accumulate_self by (apply rh_uniq_filter; exact Hu). reflexivity.
Qed.

(* ================= unique history keys in every reachable state ================= *)
From Alliance.Proofs Require Import BondedSlash.

Definition P (vi : ValInfo) : Prop := rh_uniq (vi_hist vi).
Definition UH (s : State) : Prop := vall P (valinfos s).
Lemma UH_f : forall s s', valinfos s' = valinfos s -> UH s -> UH s'.
Proof. unfold UH; intros s s' E H; rewrite E; exact H. Qed.
Ltac uhframe := inv_deep UH_f.

Lemma P_empty : P empty_valinfo.  Proof. constructor. Qed.
Lemma P_dsh c vi : P vi -> P (set_vi_dshares c vi).  Proof. auto. Qed.
Lemma P_vsh c vi : P vi -> P (set_vi_vshares c vi).  Proof. auto. Qed.

Lemma uh_write v vi s : UH s -> P vi -> UH (set_valinfos (kset (valinfos s) [v] vi) s).
Proof. intros H Hp. unfold UH in *. cbn [valinfos set_valinfos]. apply vall_kset; assumption. Qed.
Lemma uh_set_valinfo v vi : P vi -> inv UH (set_valinfo v vi).
Proof. intros Hp. unfold set_valinfo. apply inv_modify. intros s Hs. apply uh_write; assumption. Qed.

Lemma uh_gav v : hoare UH (get_alliance_validator v) (fun r s => UH s /\ P (snd r)) UH.
Proof.
  unfold get_alliance_validator. apply hoare_bind_inv; [apply inv_gets|]. intros osv.
  destruct osv as [sv|]; [|apply hoare_fail; auto].
  intros s Hs. unfold bind, gets. destruct (kget (valinfos s) [v]) as [vi|] eqn:E; cbn.
  - split; [exact Hs|]. exact (vall_kget P _ _ _ Hs E).
  - split; [apply uh_write; [exact Hs | apply P_empty] | apply P_empty].
Qed.

(* the index loop of AddAssetsToRewardPool keeps keys unique *)
Lemma keys_set_index l d a idx : map rkey (rh_set_index l d a idx) = map rkey l.
Proof.
  induction l as [|h l IH]; [reflexivity|]. cbn [rh_set_index].
  destruct ((rh_denom h =? d) && (rh_alliance h =? a)); cbn [map]; [destruct h; reflexivity | rewrite IH; reflexivity].
Qed.
Lemma NoDup_app_snoc {A} (l : list A) x : NoDup l -> ~ In x l -> NoDup (l ++ [x]).
Proof.
  induction l as [|y l IH]; intros Hl Hx; cbn [app]; [constructor; [intros []|constructor]|].
  inversion Hl as [|? ? Hy Hl']; subst. constructor.
  - intros Hin. apply in_app_or in Hin. destruct Hin as [Hin|[->|[]]]; [exact (Hy Hin)|]. apply Hx. left; reflexivity.
  - apply IH; [exact Hl'|]. intros Hin. apply Hx. right; exact Hin.
Qed.
Lemma uniq_step hist d a diff :
  rh_uniq hist ->
  rh_uniq (match rh_find hist d a with
           | None => hist ++ [mkRH d a diff]
           | Some h => rh_set_index hist d a (rh_index h + diff)
           end).
Proof.
  intros Hu. destruct (rh_find hist d a) as [h|] eqn:E.
  - unfold rh_uniq. rewrite keys_set_index. exact Hu.
  - unfold rh_uniq. rewrite map_app. cbn [map]. apply rh_find_none in E.
    apply NoDup_app_snoc; assumption.
Qed.

(* pure accumulator loops: state untouched, predicate on the accumulator kept *)
Lemma hoare_mfold_pure A B (J : State -> Prop) (Pa : B -> Prop) (l : list A) (f : B -> A -> M B) :
  (forall acc x, Pa acc -> hoare J (f acc x) (fun acc' s => J s /\ Pa acc') J) ->
  forall acc, Pa acc -> hoare J (mfold l acc f) (fun acc' s => J s /\ Pa acc') J.
Proof.
  intros H. induction l as [|x l IH]; intros acc Hacc; cbn [mfold]; [apply hoare_ret; auto|].
  eapply hoare_bind_with; [apply H; exact Hacc|]. intros acc' Hacc'. apply IH; exact Hacc'.
Qed.

Lemma uh_add_assets v vi coins : P vi ->
  hoare UH (add_assets_to_reward_pool v vi coins) (fun r s => UH s /\ P r) UH.
Proof.
  intros Hp. unfold add_assets_to_reward_pool.
  destruct (length (vi_dshares vi) =? 0)%nat; [apply hoare_ret; auto|].
  apply hoare_bind_inv; [uhframe|]. intros als.
  apply hoare_bind_inv; [apply inv_gets|]. intros t.
  eapply hoare_bind_with with (P := rh_uniq).
  { apply hoare_mfold_pure; [|exact Hp]. intros hist a Hh.
    destruct (_ =? 0); [apply hoare_panic; auto|].
    apply hoare_mfold_pure; [|exact Hh]. intros h c Hh'.
    pose proof (uniq_step h (fst c) (a_denom a)) as U.
    destruct (rh_find h (fst c) (a_denom a)); apply hoare_ret; intros s Hs; (split; [exact Hs | apply U; exact Hh']). }
  intros hist Hh.
  apply hoare_bind_inv; [apply uh_set_valinfo; exact Hh|]. intros _.
  apply hoare_bind_inv; [uhframe|]. intros _.
  apply hoare_ret. intros s Hs; split; [exact Hs | exact Hh].
Qed.

Lemma uh_claim_validator_rewards v vi : P vi ->
  hoare UH (claim_validator_rewards v vi) (fun r s => UH s /\ P r) UH.
Proof.
  intros Hp. unfold claim_validator_rewards.
  apply hoare_bind_inv; [apply inv_gets|]. intros od. destruct od; [|apply hoare_ret; auto].
  apply hoare_bind_inv; [uhframe|]. intros coins.
  destruct (cis_zero coins); [apply hoare_ret; auto | apply uh_add_assets; exact Hp].
Qed.

Lemma uh_claim_delegation_rewards del v vi dn : P vi ->
  hoare UH (claim_delegation_rewards del v vi dn) (fun r s => UH s /\ P r) UH.
Proof.
  intros Hp. unfold claim_delegation_rewards.
  apply hoare_bind_inv; [uhframe|]. intros oa. destruct oa as [a|]; [|apply hoare_fail; auto].
  apply hoare_bind_inv; [apply inv_gets|]. intros t.
  destruct (negb (rewards_started a t)); [apply hoare_ret; auto|].
  apply hoare_bind_inv; [uhframe|]. intros od. destruct od as [d|]; [|apply hoare_fail; auto].
  eapply hoare_bind_with; [apply uh_claim_validator_rewards; exact Hp|]. intros vi' Hp'.
  apply hoare_bind_inv; [apply inv_gets|]. intros s0.
  destruct (calculate_delegation_rewards s0 v d vi' a) as [coins idx].
  apply hoare_bind_inv; [apply inv_gets|]. intros h.
  apply hoare_bind_inv; [uhframe|]. intros _.
  apply hoare_bind_inv; [destruct (cany_neg coins); [apply inv_panic | apply inv_ret]|]. intros _.
  apply hoare_bind_inv; [uhframe|]. intros _.
  apply hoare_ret. intros s Hs; split; [exact Hs | exact Hp'].
Qed.

Lemma uh_update_validator_shares v vi dn dsh vsh isAdd : P vi ->
  hoare UH (update_validator_shares v vi dn dsh vsh isAdd) (fun r s => UH s /\ P r) UH.
Proof.
  intros Hp. unfold update_validator_shares.
  apply hoare_bind_inv; [destruct (_ || _); [apply inv_panic | apply inv_ret]|]. intros _.
  destruct isAdd.
  - apply hoare_bind_inv; [apply uh_set_valinfo; exact Hp|]. intros _. apply hoare_ret. intros s Hs; split; [exact Hs | exact Hp].
  - apply hoare_bind_inv; [apply inv_opt_or_panic|]. intros ds.
    apply hoare_bind_inv; [apply inv_opt_or_panic|]. intros vs.
    apply hoare_bind_inv; [apply uh_set_valinfo; exact Hp|]. intros _. apply hoare_ret. intros s Hs; split; [exact Hs | exact Hp].
Qed.

Lemma uh_reset a : inv UH (reset_asset_and_validators a).
Proof.
  unfold reset_asset_and_validators. destruct (negb (a_tokens a =? 0)); [apply inv_ret|].
  apply inv_bind_gets. intros s0 Hs0.
  apply inv_bind; [|intros _; uhframe].
  apply (inv_mfor_Forall UH _ (fun kv : Key * ValInfo => P (snd kv))).
  - unfold UH in Hs0. apply Forall_forall. intros kv Hin. exact (vall_in P _ kv Hs0 Hin).
  - intros kv Hkv. apply inv_modify. intros s Hs. unfold UH in *. cbn [valinfos set_valinfos]. apply vall_kset; [exact Hs | exact Hkv].
Qed.

Lemma uh_clear_dust del v vi a : P vi ->
  hoare UH (clear_dust_delegation del v vi a) (fun r s => UH s /\ P r) UH.
Proof.
  intros Hp. unfold clear_dust_delegation.
  apply hoare_bind_inv; [uhframe|]. intros od.
  apply hoare_bind_inv.
  { destruct od as [d|]; [|apply inv_ret]. destruct (_ <? 0); [apply inv_panic|]. destruct (_ =? 0); [|apply inv_ret].
    apply inv_bind; [uhframe|]. intros _. destruct (_ <? 0); [apply inv_panic | apply inv_ret]. }
  intros dsr. cbv zeta.
  apply hoare_bind_inv; [destruct (_ <? 0); [apply inv_panic | apply inv_ret]|]. intros _.
  apply hoare_bind_inv; [apply inv_opt_or_panic|]. intros ds.
  apply hoare_bind_inv; [apply inv_opt_or_panic|]. intros vs.
  apply hoare_bind_inv; [apply uh_set_valinfo; exact Hp|]. intros _.
  apply hoare_bind_inv; [apply uh_reset|]. intros _.
  apply hoare_ret. intros s Hs; split; [exact Hs | exact Hp].
Qed.

Lemma hoare_to_inv A (J : State -> Prop) (Q : A -> Prop) (m : M A) :
  hoare J m (fun r s => J s /\ Q r) J -> inv J m.
Proof. intros H s Hs. specialize (H s Hs). destruct (m s); tauto. Qed.

Ltac uhP := cbn [snd fst] in *; auto using P_dsh, P_vsh, P_empty.
Ltac uh_call :=
  lazymatch goal with
  | |- inv UH (bind (match ?x with _ => _ end) _) => destruct x; cbv iota
  | |- inv UH (bind (get_alliance_validator _) _) => eapply inv_bind_with; [apply uh_gav | intros [? ?] ?]
  | |- inv UH (bind (claim_delegation_rewards _ _ _ _) _) => eapply inv_bind_with; [apply uh_claim_delegation_rewards; uhP | intros ? ?]
  | |- inv UH (bind (claim_validator_rewards _ _) _) => eapply inv_bind_with; [apply uh_claim_validator_rewards; uhP | intros ? ?]
  | |- inv UH (bind (update_validator_shares _ _ _ _ _ _) _) => eapply inv_bind_with; [apply uh_update_validator_shares; uhP | intros ? ?]
  | |- inv UH (bind (clear_dust_delegation _ _ _ _) _) => eapply inv_bind_with; [apply uh_clear_dust; uhP | intros ? ?]
  | |- inv UH (bind (add_assets_to_reward_pool _ _ _) _) => eapply inv_bind_with; [apply uh_add_assets; uhP | intros ? ?]
  | |- inv UH (get_alliance_validator _) => eapply hoare_to_inv; apply uh_gav
  | |- inv UH (claim_delegation_rewards _ _ _ _) => eapply hoare_to_inv; apply uh_claim_delegation_rewards; uhP
  | |- inv UH (claim_validator_rewards _ _) => eapply hoare_to_inv; apply uh_claim_validator_rewards; uhP
  | |- inv UH (update_validator_shares _ _ _ _ _ _) => eapply hoare_to_inv; apply uh_update_validator_shares; uhP
  | |- inv UH (clear_dust_delegation _ _ _ _) => eapply hoare_to_inv; apply uh_clear_dust; uhP
  | |- inv UH (set_valinfo _ _) => apply uh_set_valinfo; uhP
  | |- inv UH (reset_asset_and_validators _) => apply uh_reset
  | |- inv UH (modify _) =>
    apply inv_modify; let s := fresh "s" in let Hs := fresh "Hs" in
    intros s Hs; apply (UH_f s); [reflexivity | exact Hs]
  end.
Ltac uh := repeat first [ uh_call | inv_step | lazymatch goal with |- inv _ ?m => let h := head_of m in unfold h end ].

Lemma uh_k_delegate del v vi dn amt : P vi -> inv UH (k_delegate del v vi dn amt).
Proof. intros Hp. unfold k_delegate. uh. Qed.
Lemma uh_k_undelegate del v vi dn amt : P vi -> inv UH (k_undelegate del v vi dn amt).
Proof. intros Hp. unfold k_undelegate. uh. Qed.
Lemma uh_k_redelegate del src svi dst dvi dn amt : P svi -> P dvi -> inv UH (k_redelegate del src svi dst dvi dn amt).
Proof. intros Hp1 Hp2. unfold k_redelegate. uh. Qed.

Lemma uh_msg_delegate del v dn amt : inv UH (msg_delegate del v dn amt).
Proof. unfold msg_delegate. destruct (amt <=? 0); [apply inv_fail|]. eapply inv_bind_with; [apply uh_gav|]. intros [sv vi] Hp. apply uh_k_delegate; exact Hp. Qed.
Lemma uh_msg_undelegate del v dn amt : inv UH (msg_undelegate del v dn amt).
Proof. unfold msg_undelegate. destruct (amt <=? 0); [apply inv_fail|]. eapply inv_bind_with; [apply uh_gav|]. intros [sv vi] Hp. apply uh_k_undelegate; exact Hp. Qed.
Lemma uh_msg_redelegate del src dst dn amt : inv UH (msg_redelegate del src dst dn amt).
Proof.
  unfold msg_redelegate. destruct (amt <=? 0); [apply inv_fail|].
  eapply inv_bind_with; [apply uh_gav|]. intros [sv1 svi] Hp1.
  eapply inv_bind_with; [apply uh_gav|]. intros [sv2 dvi] Hp2. apply uh_k_redelegate; assumption.
Qed.
Lemma uh_msg_claim del v dn : inv UH (msg_claim del v dn).
Proof. unfold msg_claim. uh. Qed.

Lemma uh_slash_redelegations v f : inv UH (slash_redelegations v f).
Proof. unfold slash_redelegations. uh. Qed.
Lemma uh_slash_undelegations v f : inv UH (slash_undelegations v f).
Proof. uhframe. Qed.
Lemma uh_slash_validator v f : inv UH (slash_validator v f).
Proof.
  unfold slash_validator. destruct ((f <=? 0) || (ONE <? f)); [apply inv_fail|].
  eapply inv_bind_with; [apply uh_gav|]. intros [sv vi] Hp. cbn [snd] in Hp.
  apply inv_bind; [uhframe|]. intros vs'.
  apply inv_bind; [apply uh_set_valinfo; apply P_vsh; exact Hp|]. intros _.
  apply inv_bind; [apply uh_slash_redelegations|]. intros _. apply uh_slash_undelegations.
Qed.
Lemma uh_hook_slash v f : inv UH (hook_slash v f).
Proof. unfold hook_slash. apply inv_bind; [apply uh_slash_validator|]. intros _. uhframe. Qed.

Lemma uh_update_alliance_asset na : inv UH (update_alliance_asset na).
Proof. unfold update_alliance_asset. uh. Qed.
Lemma uh_reward_weight_change_hook als : inv UH (reward_weight_change_hook als).
Proof.
  unfold reward_weight_change_hook. apply inv_bind; [apply inv_gets|]. intros t.
  apply inv_mfold. intros acc a.
  destruct (_ || _); [apply inv_ret|]. destruct (_ <? _); [apply inv_ret|].
  apply inv_bind; [apply inv_opt_or_panic|]. intros m.
  apply inv_bind; [apply inv_opt_or_panic|]. intros w0. cbv zeta.
  apply inv_bind; [uhframe|]. intros _.
  apply inv_bind; [apply uh_update_alliance_asset|]. intros _. apply inv_ret.
Qed.

(* the partition loop of the rebalance keeps, with every bonded validator, a copy with unique keys *)
Definition elemP (x : Z * SVal * ValInfo) : Prop := let '(_, _, vi) := x in P vi.
Definition part_body (acc : list (Z * SVal * ValInfo) * Coins) (kv : Key * ValInfo) : M (list (Z * SVal * ValInfo) * Coins) :=
  match fst kv with
  | [v] =>
    '(sv, vi) <- get_alliance_validator v ;;
    if is_bonded sv then ret (fst acc ++ [(v, sv, vi)], snd acc)
    else ret (fst acc, cadd (snd acc) (vi_vshares vi))
  | _ => ret acc
  end.
Lemma uh_part_body acc kv : Forall elemP (fst acc) ->
  hoare UH (part_body acc kv) (fun acc' s => UH s /\ Forall elemP (fst acc')) UH.
Proof.
  intros Hacc. unfold part_body. destruct (fst kv) as [|v [|? ?]]; try (apply hoare_ret; auto).
  eapply hoare_bind_with; [apply uh_gav|]. intros [sv vi] Hp. cbn [snd] in Hp.
  destruct (is_bonded sv); apply hoare_ret; intros s Hs; (split; [exact Hs|]); cbn [fst]; [|exact Hacc].
  apply Forall_app. split; [exact Hacc | constructor; [exact Hp | constructor]].
Qed.
Lemma uh_partition (l : KMap ValInfo) : forall acc, Forall elemP (fst acc) ->
  hoare UH (mfold_swallow l acc part_body) (fun acc' s => UH s /\ Forall elemP (fst acc')) UH.
Proof.
  induction l as [|kv l IH]; intros acc Hacc; cbn [mfold_swallow]; [apply hoare_ret; auto|].
  intros s Hs. pose proof (uh_part_body acc kv Hacc s Hs) as H.
  destruct (part_body acc kv s) as [acc' s'|e s'|e s'].
  - destruct H as [Hs' Hacc']. exact (IH acc' Hacc' s' Hs').
  - split; [exact H | exact Hacc].
  - exact H.
Qed.

Lemma uh_rebalance als : inv UH (rebalance_bond_token_weights als).
Proof.
  unfold rebalance_bond_token_weights. apply inv_bind; [apply inv_gets|]. intros s0. cbv zeta.
  apply inv_bind; [apply inv_gets|]. intros t.
  eapply inv_bind_with with (P := fun acc : list (Z * SVal * ValInfo) * Coins => Forall elemP (fst acc)).
  { apply (uh_partition (valinfos s0) ([], [])). constructor. }
  intros [bonded unb] Hb. cbn [fst] in Hb.
  apply (inv_mfor_Forall UH _ elemP); [exact Hb|]. intros [[v sv] vi] Hp. unfold elemP in Hp.
  apply inv_bind; [apply inv_gets|]. intros od. cbv zeta.
  apply inv_bind.
  { apply inv_mfold. intros acc a. destruct (negb _); [apply inv_bind; [uhframe | intros _; apply inv_ret]|].
    cbv zeta. destruct (_ && _); apply inv_ret. }
  intros expected.
  destruct (_ <? expected).
  - cbv zeta. destruct (_ =? 0); [apply inv_ret|].
    apply inv_bind; [uhframe|]. intros _.
    eapply inv_bind_with; [apply uh_claim_validator_rewards; exact Hp|]. intros vi' _. uhframe.
  - destruct (expected <? _); [|apply inv_ret]. cbv zeta. destruct (_ =? 0); [apply inv_ret|].
    apply inv_bind; [uhframe|]. intros sh.
    eapply inv_bind_with; [apply uh_claim_validator_rewards; exact Hp|]. intros vi' _. uhframe.
Qed.

Lemma uh_end_blocker : inv UH end_blocker.
Proof.
  unfold end_blocker.
  apply inv_bind; [uhframe|]. intros _.
  apply inv_bind; [uhframe|]. intros _.
  apply inv_bind; [uhframe|]. intros als.
  apply inv_bind; [uhframe|]. intros als1.
  apply inv_bind; [uhframe|]. intros als2.
  apply inv_bind; [apply uh_reward_weight_change_hook|]. intros als3.
  unfold rebalance_hook. apply inv_bind; [apply inv_gets|]. intros f. destruct f; [|apply inv_ret].
  apply inv_bind; [uhframe|]. intros _. apply uh_rebalance.
Qed.

Lemma uh_msg_create m : inv UH (msg_create_alliance m).
Proof. uhframe. Qed.
Lemma uh_msg_update m : inv UH (msg_update_alliance m).
Proof.
  unfold msg_update_alliance.
  repeat first [ lazymatch goal with |- inv UH (update_alliance_asset _) => apply uh_update_alliance_asset | |- inv UH (get_asset _) => apply inv_gets end | inv_step ].
Qed.
Lemma uh_msg_delete au dn : inv UH (msg_delete_alliance au dn).
Proof. uhframe. Qed.
Lemma uh_msg_params au a b c : inv UH (msg_update_params au a b c).
Proof. uhframe. Qed.

(* every step, every history *)
Lemma valinfos_fold A (f : State -> A -> State) l :
  (forall s x, valinfos (f s x) = valinfos s) -> forall s, valinfos (fold_left f l s) = valinfos s.
Proof. intros H. induction l as [|x l IH]; intros s; cbn [fold_left]; [reflexivity|]. rewrite IH. apply H. Qed.

Theorem step_UH s o : UH s -> UH (fst (step s o)).
Proof.
  intros Hs. assert (W : forall (m : M unit), inv UH m -> UH (fst (clear_oracle (tx m s))) /\ UH (fst (clear_oracle (hook m s))) /\ UH (fst (clear_oracle (endblock m s)))).
  { intros m Hm. specialize (Hm s Hs). unfold tx, hook, endblock, clear_oracle. destruct (m s) as [[] s'|e s'|e s']; cbn; repeat split; auto. }
  destruct o; cbn [step fst]; try exact Hs.
  - apply (W _ uh_end_blocker).
  - apply (W _ (uh_msg_delegate _ _ _ _)).
  - apply (W _ (uh_msg_undelegate _ _ _ _)).
  - apply (W _ (uh_msg_redelegate _ _ _ _ _)).
  - apply (W _ (uh_msg_claim _ _ _)).
  - apply (W _ (uh_msg_create _)).
  - apply (W _ (uh_msg_update _)).
  - apply (W _ (uh_msg_delete _ _)).
  - apply (W _ (uh_msg_params _ _ _ _)).
  - apply (W _ (uh_hook_slash _ _)).
  - eapply UH_f; [|exact Hs]. rewrite valinfos_fold by (intros; reflexivity). rewrite valinfos_fold by (intros; reflexivity). reflexivity.
  - unfold UH in *. cbn. apply vall_kdel. exact Hs.
Qed.
Theorem run_UH h : forall s, UH s -> UH (run s h).
Proof. induction h as [|o h IH]; intros s Hs; cbn [run fold_left]; [exact Hs|]. apply IH. apply step_UH. exact Hs. Qed.
Theorem histories_have_unique_keys h v vi : kget (valinfos (run init_state h)) [v] = Some vi -> rh_uniq (vi_hist vi).
Proof. intros Hg. exact (vall_kget P _ _ _ (run_UH h init_state ltac:(constructor)) Hg). Qed.

(* ================= the claim itself ================= *)
(* the validator record in the store is the copy the function returns *)
Definition SV (v : Z) (vi : ValInfo) (s : State) : Prop := kget (valinfos s) [v] = Some vi.
Lemma SV_f v vi : forall s s', valinfos s' = valinfos s -> SV v vi s -> SV v vi s'.
Proof. unfold SV; intros s s' E H; rewrite E; exact H. Qed.

(* what a reward settlement does not touch *)
Definition fr_proj (s : State) := (delegations s, assets s, snapshots s, now s, height s).
Definition Fr (x : KMap Delegation * KMap Asset * KMap Snapshot * Z * Z) (s : State) : Prop := fr_proj s = x.
Lemma Fr_f x : forall s s', fr_proj s' = fr_proj s -> Fr x s -> Fr x s'.
Proof. unfold Fr; intros; congruence. Qed.

Lemma sv_gav v : hoare (fun _ => True) (get_alliance_validator v) (fun r s => SV v (snd r) s) (fun _ => True).
Proof.
  unfold get_alliance_validator. intros s _. unfold bind, gets. destruct (kget (svals s) [v]); cbn; [|exact I].
  destruct (kget (valinfos s) [v]) as [vi|] eqn:E; cbn; [exact E|]. unfold SV. cbn. apply kget_kset_same.
Qed.
Lemma fr_gav x v : inv (Fr x) (get_alliance_validator v).
Proof. inv_deep (Fr_f x). Qed.

Lemma sv_add_assets v vi coins : hoare (SV v vi) (add_assets_to_reward_pool v vi coins) (fun r s => SV v r s) (fun _ => True).
Proof.
  unfold add_assets_to_reward_pool. destruct (length (vi_dshares vi) =? 0)%nat; [apply hoare_ret; auto|].
  eapply hoare_bind with (Q1 := fun _ _ => True); [apply hoare_any|]. intros als.
  eapply hoare_bind with (Q1 := fun _ _ => True); [apply hoare_any|]. intros t.
  eapply hoare_bind with (Q1 := fun _ _ => True); [apply hoare_any|]. intros hist.
  eapply hoare_bind with (Q1 := fun _ => SV v (set_vi_hist hist vi)).
  { unfold set_valinfo. apply hoare_modify. intros s _. unfold SV. cbn. apply kget_kset_same. }
  intros _. eapply hoare_bind with (Q1 := fun _ => SV v (set_vi_hist hist vi)); [apply inv_hoare_true; inv_deep (SV_f v (set_vi_hist hist vi))|].
  intros _. apply hoare_ret. auto.
Qed.
Lemma sv_claim_validator_rewards v vi :
  hoare (SV v vi) (claim_validator_rewards v vi) (fun r s => SV v r s) (fun _ => True).
Proof.
  unfold claim_validator_rewards.
  eapply hoare_bind with (Q1 := fun _ => SV v vi); [apply hoare_gets; auto|]. intros od. destruct od; [|apply hoare_ret; auto].
  eapply hoare_bind with (Q1 := fun _ => SV v vi); [apply inv_hoare_true; inv_deep (SV_f v vi)|]. intros coins.
  destruct (cis_zero coins); [apply hoare_ret; auto | apply sv_add_assets].
Qed.
Lemma fr_claim_validator_rewards x v vi : inv (Fr x) (claim_validator_rewards v vi).
Proof. inv_deep (Fr_f x). Qed.

Lemma valinfos_bank_send a b c : forall x, inv (fun s => (valinfos s, fr_proj s) = x) (bank_send a b c).
Proof. intros x. inv_deep (fun s s' (E : (valinfos s', fr_proj s') = (valinfos s, fr_proj s)) (H : (valinfos s, fr_proj s) = x) => eq_trans E H). Qed.

From Alliance.Proofs Require Import WellKeyed.

(* C13: right after a successful claim the position has nothing to claim — an immediate second
   claim pays nothing — in every reachable state (unless a reward-weight snapshot of this validator
   and asset carries the current block height: then the same-block snapshot is replayed, see DESIGN) *)
Theorem nothing_claimable_after_claim h del v dn s' : let s := run init_state h in
  msg_claim del v dn s = Ok tt s' ->
  match kget (delegations s') [del; v; dn] with
  | Some d' => no_later_snapshot s' v d' dn -> claimable s' [del; v; dn] d' = []
  | None => True
  end.
Proof.
  intros s Hrun. unfold msg_claim in Hrun. unfold bind at 1 in Hrun.
  pose proof (sv_gav v s I) as G1. pose proof (uh_gav v s (run_UH h init_state ltac:(constructor))) as G2.
  pose proof (fr_gav (fr_proj s) v s eq_refl) as G3.
  destruct (get_alliance_validator v s) as [[sv vi] s1|e s1|e s1]; try discriminate.
  cbn [snd] in G1. destruct G2 as [Hu1 Hp]. cbn [snd] in Hp. unfold Fr in G3.
  unfold bind at 1 in Hrun.
  destruct (claim_delegation_rewards del v vi dn s1) as [vi' s2|e s2|e s2] eqn:Ecl; try discriminate.
  inversion Hrun; subst s2; clear Hrun.
  unfold claim_delegation_rewards in Ecl. unfold bind at 1, get_asset at 1, gets at 1 in Ecl.
  destruct (kget (assets s1) [dn]) as [a|] eqn:Ea; [|discriminate].
  assert (Hdn : a_denom a = dn).
  { apply (well_keyed h dn a). change (kget (assets s) [dn] = Some a).
    assert (E : assets s1 = assets s) by (unfold fr_proj in G3; congruence). rewrite <- E. exact Ea. }
  unfold bind at 1, gets at 1 in Ecl.
  destruct (negb (rewards_started a (now s1))) eqn:Est.
  { (* before the start time nothing is ever claimable *)
    cbn in Ecl. inversion Ecl; subst vi' s'. destruct (kget (delegations s1) [del; v; dn]) as [d'|]; [|exact I]. intros _.
    unfold claimable. rewrite Ea. destruct (kget (valinfos s1) [v]); [|reflexivity].
    apply negb_true_iff in Est. rewrite Est. reflexivity. }
  unfold bind at 1, get_delegation at 1, gets at 1 in Ecl.
  destruct (kget (delegations s1) [del; v; dn]) as [d|] eqn:Ed; [|discriminate].
  unfold bind at 1 in Ecl.
  pose proof (sv_claim_validator_rewards v vi s1 G1) as C1.
  pose proof (uh_claim_validator_rewards v vi Hp s1 Hu1) as C2.
  pose proof (fr_claim_validator_rewards (fr_proj s1) v vi s1 eq_refl) as C3.
  destruct (claim_validator_rewards v vi s1) as [vi1 s3|e s3|e s3]; try discriminate.
  destruct C2 as [Hu3 Hp1]. unfold Fr in C3.
  unfold bind at 1, gets at 1 in Ecl.
  destruct (calculate_delegation_rewards s3 v d vi1 a) as [coins idx] eqn:Ecalc.
  assert (Hidx : idx = rh_by_alliance (vi_hist vi1) (a_denom a)).
  { unfold calculate_delegation_rewards in Ecalc.
    destruct (fold_left _ _ _) as [total drh']. destruct (accumulate_rewards _ drh' a (a_weight a) d vi1) as [rw x].
    inversion Ecalc; reflexivity. }
  unfold bind at 1, gets at 1 in Ecl. unfold bind at 1, set_delegation at 1, modify in Ecl.
  set (d1 := set_d_height (height s3) (set_d_hist idx d)) in *.
  set (s4 := set_delegations (kset (delegations s3) [del; v; dn] d1) s3) in *.
  unfold bind at 1 in Ecl. destruct (cany_neg coins); [discriminate|]. cbn [ret] in Ecl.
  unfold bind at 1 in Ecl.
  pose proof (valinfos_bank_send ACC_REWARDS del coins (valinfos s4, fr_proj s4) s4 eq_refl) as B.
  destruct (bank_send ACC_REWARDS del coins s4) as [[] s5|e s5|e s5]; try discriminate.
  cbn in Ecl. inversion Ecl; subst s5 vi'; clear Ecl.
  inversion B as [[Bv Bd Ba Bs Bn Bh]].
  (* the stored delegation, validator record and asset after the claim *)
  rewrite Bd. subst s4. cbn [delegations set_delegations]. rewrite kget_kset_same. intros Hsnap.
  unfold claimable. rewrite Ba. cbn [assets set_delegations].
  inversion C3 as [[E1 E2 E3 E4 E5]]. rewrite E2, Ea. rewrite Bv. cbn [valinfos set_delegations]. unfold SV in C1. rewrite C1.
  rewrite Bn. cbn [now set_delegations]. rewrite E4. apply negb_false_iff in Est. rewrite Est.
  rewrite <- Hdn in Hsnap.
  rewrite (settled_position_has_nothing_to_claim s' v d1 vi1 a Hp1); [reflexivity| |exact Hsnap].
  subst d1. cbn [d_hist set_d_height set_d_hist]. rewrite Hidx. apply rh_by_alliance_idem.
Qed.

(* ================= a new position ================= *)
Lemma frv_bank_send a b c : forall x, inv (fun s => (valinfos s, fr_proj s) = x) (bank_send a b c).
Proof. exact (valinfos_bank_send a b c). Qed.

(* C13, not retroactive: a position that did not exist starts with nothing to claim, whatever the
   validator had accrued (even not yet withdrawn) before *)
Theorem new_position_has_nothing_to_claim h del v dn amt s' : let s := run init_state h in
  kget (delegations s) [del; v; dn] = None ->
  msg_delegate del v dn amt s = Ok tt s' ->
  match kget (delegations s') [del; v; dn] with
  | Some d' => no_later_snapshot s' v d' dn -> claimable s' [del; v; dn] d' = []
  | None => True
  end.
Proof.
  intros s Hnone Hrun. unfold msg_delegate in Hrun. destruct (amt <=? 0); [discriminate|].
  unfold bind at 1 in Hrun.
  pose proof (sv_gav v s I) as G1. pose proof (uh_gav v s (run_UH h init_state ltac:(constructor))) as G2.
  pose proof (fr_gav (fr_proj s) v s eq_refl) as G3.
  destruct (get_alliance_validator v s) as [[sv vi] s1|e s1|e s1]; try discriminate.
  cbn [snd] in G1. destruct G2 as [Hu1 Hp]. cbn [snd] in Hp. unfold Fr in G3.
  assert (Hd1 : delegations s1 = delegations s) by (unfold fr_proj in G3; congruence).
  assert (Ha1 : assets s1 = assets s) by (unfold fr_proj in G3; congruence).
  unfold k_delegate in Hrun. unfold bind at 1, get_asset at 1, gets at 1 in Hrun.
  destruct (kget (assets s1) [dn]) as [a|] eqn:Ea; [|discriminate].
  assert (Hdn : a_denom a = dn).
  { apply (well_keyed h dn a). change (kget (assets s) [dn] = Some a). rewrite <- Ha1. exact Ea. }
  unfold bind at 1 in Hrun. unfold coin1 at 1 in Hrun. destruct (amt <? 0); [discriminate|]. cbn [ret] in Hrun.
  unfold bind at 1 in Hrun.
  pose proof (frv_bank_send del ACC_ALLIANCE (if amt =? 0 then [] else [(dn, amt)]) (valinfos s1, fr_proj s1) s1 eq_refl) as B1.
  destruct (bank_send del ACC_ALLIANCE _ s1) as [[] s2|e s2|e s2]; try discriminate.
  inversion B1 as [[Bv Bd Ba Bs Bn Bh]].
  unfold bind at 1, get_delegation at 1, gets at 1 in Hrun. rewrite Bd, Hd1, Hnone in Hrun.
  unfold bind at 1 in Hrun.
  assert (G1' : SV v vi s2) by (unfold SV; rewrite Bv; exact G1).
  assert (Hu2 : UH s2) by (unfold UH; rewrite Bv; exact Hu1).
  pose proof (sv_claim_validator_rewards v vi s2 G1') as C1.
  pose proof (uh_claim_validator_rewards v vi Hp s2 Hu2) as C2.
  pose proof (fr_claim_validator_rewards (fr_proj s2) v vi s2 eq_refl) as C3.
  destruct (claim_validator_rewards v vi s2) as [vi1 s3|e s3|e s3]; try discriminate.
  destruct C2 as [Hu3 Hp1]. unfold Fr in C3. inversion C3 as [[E1 E2 E3 E4 E5]].
  unfold upsert_delegation in Hrun. unfold bind at 1 in Hrun. unfold bind at 1 in Hrun.
  destruct (del_shares_from_tokens vi1 a amt) as [ns|]; cbn [opt_or_panic ret panic] in Hrun; [|discriminate].
  unfold bind at 1, get_delegation at 1, gets at 1 in Hrun. rewrite E1, Bd, Hd1, Hnone in Hrun.
  unfold bind at 1, gets at 1 in Hrun. unfold bind at 1, set_delegation at 1, modify in Hrun. cbn [ret] in Hrun.
  unfold bind at 1 in Hrun.
  destruct (validator_shares a amt) as [nvs|]; cbn [opt_or_panic ret panic] in Hrun; [|discriminate].
  unfold bind at 1, set_asset at 1, modify in Hrun.
  unfold bind at 1 in Hrun. unfold update_validator_shares at 1 in Hrun.
  unfold bind at 1 in Hrun. destruct ((ns <? 0) || (nvs <? 0)); cbn [panic ret] in Hrun; [discriminate|].
  unfold bind at 1, set_valinfo at 1, modify in Hrun. cbn [ret] in Hrun.
  unfold queue_rebalance, modify in Hrun. inversion Hrun; subst s'; clear Hrun.
  cbn [delegations valinfos assets snapshots now set_flag set_valinfos set_assets set_delegations a_denom set_a_vshares set_a_tokens].
  rewrite kget_kset_same. intros Hsnap.
  unfold claimable.
  cbn [delegations valinfos assets snapshots now set_flag set_valinfos set_assets set_delegations a_denom set_a_vshares set_a_tokens].
  rewrite Hdn. rewrite !kget_kset_same.
  match goal with |- (if ?b then _ else _) = _ => destruct b; [|reflexivity] end.
  match goal with |- fst (calculate_delegation_rewards ?st v ?dd ?vv ?aa) = [] =>
    rewrite (settled_position_has_nothing_to_claim st v dd vv aa); [reflexivity | exact Hp1 | reflexivity |] end.
  cbn [a_denom set_a_vshares set_a_tokens]. rewrite Hdn. exact Hsnap.
Qed.

(* ================= a position that grows ================= *)
(* what ClaimDelegationRewards establishes when it returns (rewards started, position present) *)
Lemma claim_settles del v vi dn a d s1 vi1 s2 :
  UH s1 -> P vi -> SV v vi s1 -> kget (assets s1) [dn] = Some a -> a_denom a = dn ->
  rewards_started a (now s1) = true -> kget (delegations s1) [del; v; dn] = Some d ->
  claim_delegation_rewards del v vi dn s1 = Ok vi1 s2 ->
  UH s2 /\ P vi1 /\ SV v vi1 s2 /\ assets s2 = assets s1 /\ snapshots s2 = snapshots s1 /\ now s2 = now s1 /\ height s2 = height s1 /\
  exists d1, kget (delegations s2) [del; v; dn] = Some d1 /\ d_shares d1 = d_shares d /\ d_height d1 = height s1 /\
             rh_by_alliance (d_hist d1) dn = rh_by_alliance (vi_hist vi1) dn.
Proof.
  intros Hu1 Hp G1 Ea Hdn Hst Ed Ecl.
  unfold claim_delegation_rewards in Ecl. unfold bind at 1, get_asset at 1, gets at 1 in Ecl. rewrite Ea in Ecl.
  unfold bind at 1, gets at 1 in Ecl. rewrite Hst in Ecl. cbn [negb] in Ecl.
  unfold bind at 1, get_delegation at 1, gets at 1 in Ecl. rewrite Ed in Ecl.
  unfold bind at 1 in Ecl.
  pose proof (sv_claim_validator_rewards v vi s1 G1) as C1.
  pose proof (uh_claim_validator_rewards v vi Hp s1 Hu1) as C2.
  pose proof (fr_claim_validator_rewards (fr_proj s1) v vi s1 eq_refl) as C3.
  destruct (claim_validator_rewards v vi s1) as [vi' s3|e s3|e s3]; try discriminate.
  destruct C2 as [Hu3 Hp1]. unfold Fr in C3. inversion C3 as [[E1 E2 E3 E4 E5]].
  unfold bind at 1, gets at 1 in Ecl.
  destruct (calculate_delegation_rewards s3 v d vi' a) as [coins idx] eqn:Ecalc.
  assert (Hidx : idx = rh_by_alliance (vi_hist vi') (a_denom a)).
  { unfold calculate_delegation_rewards in Ecalc.
    destruct (fold_left _ _ _) as [total drh']. destruct (accumulate_rewards _ drh' a (a_weight a) d vi') as [rw x].
    inversion Ecalc; reflexivity. }
  unfold bind at 1, gets at 1 in Ecl. unfold bind at 1, set_delegation at 1, modify in Ecl.
  set (d1 := set_d_height (height s3) (set_d_hist idx d)) in *.
  set (s4 := set_delegations (kset (delegations s3) [del; v; dn] d1) s3) in *.
  unfold bind at 1 in Ecl. destruct (cany_neg coins); [discriminate|]. cbn [ret] in Ecl.
  unfold bind at 1 in Ecl.
  pose proof (valinfos_bank_send ACC_REWARDS del coins (valinfos s4, fr_proj s4) s4 eq_refl) as B.
  destruct (bank_send ACC_REWARDS del coins s4) as [[] s5|e s5|e s5]; try discriminate.
  cbn in Ecl. inversion Ecl; subst s5 vi'; clear Ecl.
  inversion B as [[Bv Bd Ba Bs Bn Bh]]. subst s4. cbn [valinfos delegations assets snapshots now height set_delegations] in *.
  split; [unfold UH; rewrite Bv; exact Hu3|]. split; [exact Hp1|]. split; [unfold SV; rewrite Bv; exact C1|].
  split; [congruence|]. split; [congruence|]. split; [congruence|]. split; [congruence|].
  exists d1. rewrite Bd. split; [apply kget_kset_same|]. subst d1. cbn [d_shares d_height d_hist set_d_height set_d_hist].
  split; [reflexivity|]. split; [congruence|]. rewrite Hidx, Hdn. apply rh_by_alliance_idem.
Qed.

(* C13, not retroactive: a position that grows is settled first; what had accrued is paid on the old
   stake and nothing is claimable on the new one *)
Theorem topped_up_position_has_nothing_to_claim h del v dn amt d s' : let s := run init_state h in
  kget (delegations s) [del; v; dn] = Some d ->
  (forall a, kget (assets s) [dn] = Some a -> rewards_started a (now s) = true) ->
  msg_delegate del v dn amt s = Ok tt s' ->
  match kget (delegations s') [del; v; dn] with
  | Some d' => no_later_snapshot s' v d' dn -> claimable s' [del; v; dn] d' = []
  | None => True
  end.
Proof.
  intros s Hsome Hstart Hrun. unfold msg_delegate in Hrun. destruct (amt <=? 0); [discriminate|].
  unfold bind at 1 in Hrun.
  pose proof (sv_gav v s I) as G1. pose proof (uh_gav v s (run_UH h init_state ltac:(constructor))) as G2.
  pose proof (fr_gav (fr_proj s) v s eq_refl) as G3.
  destruct (get_alliance_validator v s) as [[sv vi] s1|e s1|e s1]; try discriminate.
  cbn [snd] in G1. destruct G2 as [Hu1 Hp]. cbn [snd] in Hp. unfold Fr in G3.
  assert (Hd1 : delegations s1 = delegations s) by (unfold fr_proj in G3; congruence).
  assert (Ha1 : assets s1 = assets s) by (unfold fr_proj in G3; congruence).
  assert (Hn1 : now s1 = now s) by (unfold fr_proj in G3; congruence).
  unfold k_delegate in Hrun. unfold bind at 1, get_asset at 1, gets at 1 in Hrun.
  destruct (kget (assets s1) [dn]) as [a|] eqn:Ea; [|discriminate].
  assert (Hdn : a_denom a = dn).
  { apply (well_keyed h dn a). change (kget (assets s) [dn] = Some a). rewrite <- Ha1. exact Ea. }
  assert (Hst : rewards_started a (now s) = true) by (apply Hstart; rewrite <- Ha1; exact Ea).
  unfold bind at 1 in Hrun. unfold coin1 at 1 in Hrun. destruct (amt <? 0); [discriminate|]. cbn [ret] in Hrun.
  unfold bind at 1 in Hrun.
  pose proof (frv_bank_send del ACC_ALLIANCE (if amt =? 0 then [] else [(dn, amt)]) (valinfos s1, fr_proj s1) s1 eq_refl) as B1.
  destruct (bank_send del ACC_ALLIANCE _ s1) as [[] s2|e s2|e s2]; try discriminate.
  inversion B1 as [[Bv Bd Ba Bs Bn Bh]].
  unfold bind at 1, get_delegation at 1, gets at 1 in Hrun. rewrite Bd, Hd1, Hsome in Hrun.
  unfold bind at 1 in Hrun.
  destruct (claim_delegation_rewards del v vi dn s2) as [vi1 s3|e s3|e s3] eqn:Ecl; try discriminate.
  destruct (claim_settles del v vi dn a d s2 vi1 s3) as (Hu3 & Hp1 & G3' & A3 & S3 & N3 & H3 & d1 & Ed1 & Hsh & Hh & Hhist); auto.
  { unfold UH; rewrite Bv; exact Hu1. } { unfold SV; rewrite Bv; exact G1. } { rewrite Ba; exact Ea. }
  { rewrite Bn, Hn1. exact Hst. } { rewrite Bd, Hd1. exact Hsome. }
  unfold upsert_delegation in Hrun. unfold bind at 1 in Hrun. unfold bind at 1 in Hrun.
  destruct (del_shares_from_tokens vi1 a amt) as [ns|]; cbn [opt_or_panic ret panic] in Hrun; [|discriminate].
  unfold bind at 1, get_delegation at 1, gets at 1 in Hrun. rewrite Ed1 in Hrun.
  unfold bind at 1, gets at 1 in Hrun. unfold bind at 1, set_delegation at 1, modify in Hrun. cbn [ret] in Hrun.
  unfold bind at 1 in Hrun.
  destruct (validator_shares a amt) as [nvs|]; cbn [opt_or_panic ret panic] in Hrun; [|discriminate].
  unfold bind at 1, set_asset at 1, modify in Hrun.
  unfold bind at 1 in Hrun. unfold update_validator_shares at 1 in Hrun.
  unfold bind at 1 in Hrun. destruct ((ns <? 0) || (nvs <? 0)); cbn [panic ret] in Hrun; [discriminate|].
  unfold bind at 1, set_valinfo at 1, modify in Hrun. cbn [ret] in Hrun.
  unfold queue_rebalance, modify in Hrun. inversion Hrun; subst s'; clear Hrun.
  cbn [delegations valinfos assets snapshots now set_flag set_valinfos set_assets set_delegations a_denom set_a_vshares set_a_tokens].
  rewrite kget_kset_same. intros Hsnap.
  unfold claimable.
  cbn [delegations valinfos assets snapshots now set_flag set_valinfos set_assets set_delegations a_denom set_a_vshares set_a_tokens].
  rewrite Hdn. rewrite !kget_kset_same.
  match goal with |- (if ?b then _ else _) = _ => destruct b; [|reflexivity] end.
  match goal with |- fst (calculate_delegation_rewards ?st v ?dd ?vv ?aa) = [] =>
    rewrite (settled_position_has_nothing_to_claim st v dd vv aa); [reflexivity | exact Hp1 | | ] end.
  - cbn [a_denom set_a_vshares set_a_tokens d_hist set_d_shares vi_hist set_vi_vshares set_vi_dshares]. rewrite Hdn. exact Hhist.
  - cbn [a_denom set_a_vshares set_a_tokens]. rewrite Hdn. exact Hsnap.
Qed.

(* ================= the split (pro rata) ================= *)
(* AddAssetsToRewardPool's index loop is a pure double fold: for every live asset a and every coin c of the
   reward, the index of (denom c, a) grows by  amount(c) x nw(a) / tokens of a on the validator,  with
   nw(a) = srw(a) / sum of srw over the live assets and srw(a) = weight(a) x tokens(a on V) / total(a):
   the reward is split among the started assets staked on V in proportion to weight x (tokens on V / total) *)
Lemma mfold_ret A B (g : B -> A -> B) (l : list A) : forall acc s,
  mfold l acc (fun acc x => ret (g acc x)) s = Ok (fold_left g l acc) s.
Proof. induction l as [|x l IH]; intros acc s; cbn [mfold fold_left]; [reflexivity|]. unfold bind, ret. apply IH. Qed.

Definition add_index (hist : list RH) (rd dn diff : Z) : list RH :=
  match rh_find hist rd dn with
  | None => hist ++ [mkRH rd dn diff]
  | Some h => rh_set_index hist rd dn (rh_index h + diff)
  end.
Definition srw (vi : ValInfo) (a : Asset) : Z := dquo_int (dmul (a_weight a) (val_tokens a vi)) (a_tokens a).
Definition share_of (vi : ValInfo) (live : list Asset) (a : Asset) : Z :=
  dquo (srw vi a) (fold_left (fun acc b => acc + srw vi b) live 0).
Definition index_diff (vi : ValInfo) (live : list Asset) (a : Asset) (amount : Z) : Z :=
  dquo (dmul (dec_of_int amount) (share_of vi live a)) (val_tokens a vi).
Definition new_history (vi : ValInfo) (live : list Asset) (coins : Coins) : list RH :=
  fold_left (fun hist a => fold_left (fun hist c => add_index hist (fst c) (a_denom a) (index_diff vi live a (snd c))) coins hist)
            live (vi_hist vi).

Lemma inner_loop (F : Z -> Z) dn coins : forall h0 st,
  mfold coins h0 (fun hist0 c =>
     match rh_find hist0 (fst c) dn with
     | None => ret (hist0 ++ [mkRH (fst c) dn (F (snd c))])
     | Some h => ret (rh_set_index hist0 (fst c) dn (rh_index h + F (snd c)))
     end) st
  = Ok (fold_left (fun hist0 c => add_index hist0 (fst c) dn (F (snd c))) coins h0) st.
Proof.
  induction coins as [|c cs IH]; intros h0 st; cbn [mfold fold_left]; [reflexivity|].
  unfold bind. unfold add_index at 2. destruct (rh_find h0 (fst c) dn); cbn [ret]; apply IH.
Qed.
Lemma outer_loop (F : Asset -> Z -> Z) coins : forall l h0 st,
  mfold l h0 (fun hist a =>
     mfold coins hist (fun hist0 c =>
       match rh_find hist0 (fst c) (a_denom a) with
       | None => ret (hist0 ++ [mkRH (fst c) (a_denom a) (F a (snd c))])
       | Some h => ret (rh_set_index hist0 (fst c) (a_denom a) (rh_index h + F a (snd c)))
       end)) st
  = Ok (fold_left (fun hist a => fold_left (fun hist0 c => add_index hist0 (fst c) (a_denom a) (F a (snd c))) coins hist) l h0) st.
Proof.
  induction l as [|a l IH]; intros h0 st; cbn [mfold fold_left]; [reflexivity|].
  unfold bind at 1. rewrite (inner_loop (F a) (a_denom a) coins h0 st). apply IH.
Qed.

Theorem reward_index_formula v vi coins s :
  (length (vi_dshares vi) =? 0)%nat = false ->
  let live := filter (fun a => negb (skip_rewards (now s) a vi)) (map snd (assets s)) in
  fold_left (fun acc b => acc + srw vi b) live 0 <> 0 ->
  match add_assets_to_reward_pool v vi coins s with
  | Ok vi' _ => vi_hist vi' = new_history vi live coins
  | _ => True
  end.
Proof.
  intros Hd live Htot. unfold add_assets_to_reward_pool. rewrite Hd.
  unfold bind at 1, all_assets at 1, gets at 1. unfold bind at 1, gets at 1. fold live.
  assert (Ht : fold_left (fun acc a0 => acc + dquo_int (dmul (a_weight a0) (val_tokens a0 vi)) (a_tokens a0)) live 0 =? 0 = false)
    by (apply Z.eqb_neq; exact Htot).
  rewrite Ht. unfold bind at 1.
  pose proof (outer_loop (fun a amt => index_diff vi live a amt) coins live (vi_hist vi) s) as E.
  unfold index_diff, share_of, srw in E. rewrite E. clear E.
  unfold bind at 1. unfold set_valinfo at 1, modify.
  unfold bind at 1. destruct (bank_send ACC_ALLIANCE ACC_REWARDS coins _) as [[] s2| |]; try exact I.
  cbn [ret vi_hist set_vi_hist]. unfold new_history, index_diff, share_of, srw. reflexivity.
Qed.

(* KMapSorted.v — sortedness of the ordered maps and the algebra that depends
   on it: lookup after update / delete, sums over a map. *)
From Coq Require Import ZArith List Bool Lia Sorting.Sorted.
From Alliance Require Import KMap KMapFacts.
Import ListNotations.
Open Scope Z_scope.

Definition klt (a b : Key) : Prop := kcmp a b = Lt.

Lemma kcmp_antisym a b : kcmp b a = CompOpp (kcmp a b).
Proof.
  revert b; induction a as [|x a IH]; intros [|y b]; cbn; try reflexivity.
  rewrite (Z.compare_antisym x y). destruct (x ?= y); cbn; auto.
Qed.

Lemma kcmp_gt_lt a b : kcmp a b = Gt -> kcmp b a = Lt.
Proof. intros H; rewrite kcmp_antisym, H; reflexivity. Qed.
Lemma kcmp_lt_gt a b : kcmp a b = Lt -> kcmp b a = Gt.
Proof. intros H; rewrite kcmp_antisym, H; reflexivity. Qed.

Lemma klt_trans a b c : klt a b -> klt b c -> klt a c.
Proof.
  unfold klt; revert b c; induction a as [|x a IH]; intros [|y b] [|z c]; cbn; try congruence.
  destruct (Z.compare_spec x y) as [E1|E1|E1]; try congruence;
  destruct (Z.compare_spec y z) as [E2|E2|E2]; try congruence; intros H1 H2; subst.
  - rewrite Z.compare_refl. eapply IH; eauto.
  - destruct (Z.compare_spec y z); try lia; reflexivity.
  - destruct (Z.compare_spec x z); try lia; reflexivity.
  - destruct (Z.compare_spec x z); try lia; reflexivity.
Qed.

Lemma klt_irrefl a : ~ klt a a.
Proof. unfold klt; rewrite kcmp_refl; congruence. Qed.

Definition ksorted {V} (m : KMap V) : Prop := StronglySorted (fun x y => klt (fst x) (fst y)) m.

Section S.
  Context {V : Type}.
  Implicit Types (m : KMap V) (k : Key) (v : V).

  Lemma ksorted_nil : ksorted (@nil (Key * V)).
  Proof. constructor. Qed.

  Lemma ksorted_inv k v m : ksorted ((k, v) :: m) -> ksorted m /\ Forall (fun y => klt k (fst y)) m.
  Proof. intros H; inversion H; subst; auto. Qed.

  Lemma ksorted_inv' (kv : Key * V) m : ksorted (kv :: m) -> ksorted m /\ Forall (fun y => klt (fst kv) (fst y)) m.
  Proof. intros H; inversion H; subst; auto. Qed.

  Lemma kset_keys_ge k0 k v m : klt k0 k -> Forall (fun y => klt k0 (fst y)) m ->
    Forall (fun y => klt k0 (fst y)) (kset m k v).
  Proof.
    intros Hk Hm; induction m as [|[k' v'] m IH]; cbn.
    - constructor; [exact Hk | constructor].
    - inversion Hm; subst. destruct (kcmp k k'); constructor; auto.
  Qed.

  Lemma ksorted_kset m k v : ksorted m -> ksorted (kset m k v).
  Proof.
    intros Hm; induction m as [|[k' v'] m IH]; cbn.
    - constructor; constructor.
    - apply ksorted_inv in Hm; destruct Hm as [Hm Hall]. destruct (kcmp k k') eqn:E.
      + apply kcmp_eq in E; subst. constructor; auto.
      + constructor; [constructor; auto|]. constructor; [exact E|].
        eapply Forall_impl; [|exact Hall]. intros y Hy. eapply klt_trans; eauto.
      + constructor; [apply IH; exact Hm|]. apply kset_keys_ge; [apply kcmp_gt_lt; exact E | exact Hall].
  Qed.

  Lemma kdel_keys_ge k0 k m : Forall (fun y => klt k0 (fst y)) m -> Forall (fun y => klt k0 (fst y)) (kdel m k).
  Proof.
    intros Hm; induction m as [|[k' v'] m IH]; cbn; [constructor|].
    inversion Hm; subst. destruct (kcmp k k'); auto.
  Qed.

  Lemma ksorted_kdel m k : ksorted m -> ksorted (kdel m k).
  Proof.
    intros Hm; induction m as [|[k' v'] m IH]; cbn; [constructor|].
    apply ksorted_inv in Hm; destruct Hm as [Hm Hall]. destruct (kcmp k k') eqn:E; auto.
    - constructor; auto.
    - constructor; [apply IH; exact Hm | apply kdel_keys_ge; exact Hall].
  Qed.

  Lemma ksorted_filter (f : Key * V -> bool) m : ksorted m -> ksorted (filter f m).
  Proof.
    intros Hm; induction m as [|kv m IH]; cbn; [constructor|].
    inversion Hm as [|? ? H1 H2]; subst. destruct (f kv); [|apply IH; exact H1].
    constructor; [apply IH; exact H1|].
    apply Forall_forall; intros y Hy. apply filter_In in Hy. destruct Hy as [Hy _].
    rewrite Forall_forall in H2. auto.
  Qed.

  (* a key below every key of the map is absent *)
  Lemma kget_below k m : Forall (fun y => klt k (fst y)) m -> kget m k = None.
  Proof. intros H; destruct m as [|[k' v'] m]; cbn; [reflexivity|]. inversion H; subst. cbn in *. unfold klt in H2. rewrite H2. reflexivity. Qed.

  Lemma kget_kset_other m k k' v : ksorted m -> k' <> k -> kget (kset m k v) k' = kget m k'.
  Proof.
    intros Hm Hne; induction m as [|[k0 v0] m IH]; cbn.
    - destruct (kcmp k' k) eqn:E; try reflexivity. apply kcmp_eq in E; congruence.
    - apply ksorted_inv in Hm; destruct Hm as [Hm Hall]. destruct (kcmp k k0) eqn:E; cbn.
      + apply kcmp_eq in E; subst k0. destruct (kcmp k' k) eqn:E2; try reflexivity. apply kcmp_eq in E2; congruence.
      + destruct (kcmp k' k) eqn:E2.
        * apply kcmp_eq in E2; congruence.
        * assert (H : kcmp k' k0 = Lt) by (eapply klt_trans; eauto). rewrite H; reflexivity.
        * reflexivity.
      + destruct (kcmp k' k0) eqn:E2; try reflexivity. apply IH; exact Hm.
  Qed.

  Lemma kget_kdel_same m k : ksorted m -> kget (kdel m k) k = None.
  Proof.
    intros Hm; induction m as [|[k0 v0] m IH]; cbn; [reflexivity|].
    apply ksorted_inv in Hm; destruct Hm as [Hm Hall]. destruct (kcmp k k0) eqn:E; cbn.
    - apply kcmp_eq in E; subst. apply kget_below; exact Hall.
    - rewrite E; reflexivity.
    - rewrite E. apply IH; exact Hm.
  Qed.

  Lemma kget_kdel_other m k k' : ksorted m -> k' <> k -> kget (kdel m k) k' = kget m k'.
  Proof.
    intros Hm Hne; induction m as [|[k0 v0] m IH]; cbn; [reflexivity|].
    apply ksorted_inv in Hm; destruct Hm as [Hm Hall]. destruct (kcmp k k0) eqn:E; cbn.
    - apply kcmp_eq in E; subst k0. destruct (kcmp k' k) eqn:E2.
      + apply kcmp_eq in E2; congruence.
      + apply kget_below. eapply Forall_impl; [|exact Hall]. intros y Hy; eapply klt_trans; eauto.
      + reflexivity.
    - reflexivity.
    - destruct (kcmp k' k0); try reflexivity. apply IH; exact Hm.
  Qed.

  (* sums *)
  Variable f : Key -> V -> Z.
  Definition kval m k : Z := match kget m k with Some v => f k v | None => 0 end.

  Lemma ksum_kset m k v : ksorted m -> ksum f (kset m k v) = ksum f m - kval m k + f k v.
  Proof.
    intros Hm; unfold kval, ksum; induction m as [|[k0 v0] m IH]; cbn.
    - lia.
    - apply ksorted_inv in Hm; destruct Hm as [Hm Hall]. destruct (kcmp k k0) eqn:E; cbn.
      + apply kcmp_eq in E; subst. lia.
      + lia.
      + specialize (IH Hm). lia.
  Qed.

  Lemma ksum_kdel m k : ksorted m -> ksum f (kdel m k) = ksum f m - kval m k.
  Proof.
    intros Hm; unfold kval, ksum; induction m as [|[k0 v0] m IH]; cbn.
    - lia.
    - apply ksorted_inv in Hm; destruct Hm as [Hm Hall]. destruct (kcmp k k0) eqn:E; cbn.
      + apply kcmp_eq in E; subst. lia.
      + lia.
      + specialize (IH Hm). lia.
  Qed.
End S.

(* NumFacts.v — error envelopes of the 18-digit fixed-point arithmetic (Num.v):
   banker's rounding is within half a unit in the last place, is monotone and is
   exact on multiples of 10^18; Mul / Quo inherit those bounds. *)
From Coq Require Import ZArith List Bool Lia.
From Alliance Require Import Num.
Open Scope Z_scope.

Ltac prec := try unfold HALF in *; try unfold ONE in *; try unfold PREC in *.

Lemma PREC_pos : 0 < PREC.                 Proof. prec; lia. Qed.
Lemma HALF_twice : 2 * HALF = PREC.        Proof. prec; lia. Qed.

(* ---------- chop_pos ---------- *)
Lemma chop_pos_bounds n : 0 <= n -> 2 * n - PREC <= 2 * PREC * chop_pos n <= 2 * n + PREC.
Proof.
  intros Hn. unfold chop_pos.
  pose proof (Z.div_mod n PREC ltac:(prec; lia)) as Hdm.
  pose proof (Z.mod_pos_bound n PREC PREC_pos) as Hm.
  destruct (n mod PREC =? 0) eqn:E0; [apply Z.eqb_eq in E0; prec; lia|].
  destruct (n mod PREC <? HALF) eqn:E1; [apply Z.ltb_lt in E1; prec; lia|].
  destruct (HALF <? n mod PREC) eqn:E2; [apply Z.ltb_lt in E2; prec; lia|].
  apply Z.ltb_ge in E1, E2. destruct (Z.even (n / PREC)); prec; lia.
Qed.
Lemma chop_pos_nonneg n : 0 <= n -> 0 <= chop_pos n.
Proof. intros Hn. pose proof (chop_pos_bounds n Hn). pose proof PREC_pos. nia. Qed.
Lemma chop_pos_exact k : 0 <= k -> chop_pos (k * PREC) = k.
Proof.
  intros Hk. unfold chop_pos. rewrite Z.mod_mul by (prec; lia). cbn. apply Z.div_mul. prec; lia.
Qed.
Lemma chop_pos_mono a b : 0 <= a -> a <= b -> chop_pos a <= chop_pos b.
Proof.
  intros Ha Hab. assert (Hb : 0 <= b) by lia.
  (* compare through floor and the rounding decision *)
  unfold chop_pos.
  pose proof (Z.div_mod a PREC ltac:(prec; lia)) as Hda. pose proof (Z.mod_pos_bound a PREC PREC_pos) as Hma.
  pose proof (Z.div_mod b PREC ltac:(prec; lia)) as Hdb. pose proof (Z.mod_pos_bound b PREC PREC_pos) as Hmb.
  assert (Hq : a / PREC <= b / PREC) by (apply Z.div_le_mono; [exact PREC_pos | exact Hab]).
  destruct (Z.eq_dec (a / PREC) (b / PREC)) as [Heq|Hne].
  - (* same floor: the rounding decision is monotone in the remainder *)
    assert (Hr : a mod PREC <= b mod PREC) by nia. rewrite <- Heq.
    destruct (a mod PREC =? 0) eqn:A0; destruct (b mod PREC =? 0) eqn:B0;
    destruct (a mod PREC <? HALF) eqn:A1; destruct (b mod PREC <? HALF) eqn:B1;
    destruct (HALF <? a mod PREC) eqn:A2; destruct (HALF <? b mod PREC) eqn:B2;
    destruct (Z.even (a / PREC));
    repeat match goal with
           | H : (_ =? _) = true |- _ => apply Z.eqb_eq in H
           | H : (_ =? _) = false |- _ => apply Z.eqb_neq in H
           | H : (_ <? _) = true |- _ => apply Z.ltb_lt in H
           | H : (_ <? _) = false |- _ => apply Z.ltb_ge in H
           end; try lia.
  - (* floors differ by at least one: rounding moves each by at most one *)
    assert (a / PREC + 1 <= b / PREC) by lia.
    destruct (a mod PREC =? 0); destruct (b mod PREC =? 0);
    destruct (a mod PREC <? HALF); destruct (b mod PREC <? HALF);
    destruct (HALF <? a mod PREC); destruct (HALF <? b mod PREC);
    destruct (Z.even (a / PREC)); destruct (Z.even (b / PREC)); lia.
Qed.

(* ---------- chop_round (sign symmetric) ---------- *)
Lemma chop_round_bounds n : 2 * n - PREC <= 2 * PREC * chop_round n <= 2 * n + PREC.
Proof.
  unfold chop_round. destruct (n <? 0) eqn:E.
  - apply Z.ltb_lt in E. pose proof (chop_pos_bounds (- n) ltac:(lia)). lia.
  - apply Z.ltb_ge in E. apply chop_pos_bounds; exact E.
Qed.
Lemma chop_round_nonneg n : 0 <= n -> 0 <= chop_round n.
Proof. intros Hn. unfold chop_round. assert (E : n <? 0 = false) by (apply Z.ltb_ge; lia). rewrite E. apply chop_pos_nonneg; exact Hn. Qed.
Lemma chop_round_exact k : chop_round (k * PREC) = k.
Proof.
  unfold chop_round. pose proof PREC_pos as HP. destruct (k * PREC <? 0) eqn:E.
  - apply Z.ltb_lt in E. replace (- (k * PREC)) with ((- k) * PREC) by lia. rewrite chop_pos_exact by nia. lia.
  - apply Z.ltb_ge in E. apply chop_pos_exact. nia.
Qed.
Lemma chop_round_mono a b : 0 <= a -> a <= b -> chop_round a <= chop_round b.
Proof.
  intros Ha Hab. unfold chop_round.
  assert (Ea : a <? 0 = false) by (apply Z.ltb_ge; lia). assert (Eb : b <? 0 = false) by (apply Z.ltb_ge; lia).
  rewrite Ea, Eb. apply chop_pos_mono; assumption.
Qed.

(* ---------- Mul ---------- *)
(* |Mul(a,b) - a*b/10^18| <= 1/2 ulp, stated without division *)
Theorem dmul_bounds a b : 2 * (a * b) - PREC <= 2 * PREC * dmul a b <= 2 * (a * b) + PREC.
Proof. unfold dmul. apply chop_round_bounds. Qed.
Theorem dmul_one_l x : dmul ONE x = x.
Proof. unfold dmul, ONE. rewrite Z.mul_comm. apply chop_round_exact. Qed.
Theorem dmul_one_r x : dmul x ONE = x.
Proof. unfold dmul, ONE. apply chop_round_exact. Qed.
Theorem dmul_nonneg a b : 0 <= a -> 0 <= b -> 0 <= dmul a b.
Proof. intros; unfold dmul; apply chop_round_nonneg; nia. Qed.
Theorem dmul_mono_l a a' b : 0 <= a -> a <= a' -> 0 <= b -> dmul a b <= dmul a' b.
Proof. intros; unfold dmul; apply chop_round_mono; nia. Qed.
Theorem dmul_mono_r a b b' : 0 <= a -> 0 <= b -> b <= b' -> dmul a b <= dmul a b'.
Proof. intros; unfold dmul; apply chop_round_mono; nia. Qed.
(* a factor of at most 1.0 never increases a non-negative value *)
Theorem dmul_le_r q x : 0 <= q -> q <= ONE -> 0 <= x -> dmul q x <= x.
Proof. intros Hq Hq1 Hx. pose proof (dmul_mono_l q ONE x Hq Hq1 Hx) as H. rewrite dmul_one_l in H. exact H. Qed.

(* ---------- Quo ---------- *)
Theorem dquo_self x : 0 < x -> dquo x x = ONE.
Proof.
  intros Hx. unfold dquo. replace (x * PREC * PREC) with ((PREC * PREC) * x) by lia.
  rewrite Z.quot_mul by lia. replace (PREC * PREC) with (ONE * PREC) by (prec; lia). apply chop_round_exact.
Qed.
Theorem dquo_nonneg a b : 0 <= a -> 0 < b -> 0 <= dquo a b.
Proof.
  intros Ha Hb. unfold dquo. apply chop_round_nonneg. pose proof PREC_pos.
  apply Z.quot_pos; nia.
Qed.
(* a part of a whole is a ratio of at most 1.0 *)
Theorem dquo_le_one a b : 0 <= a -> a <= b -> 0 < b -> dquo a b <= ONE.
Proof.
  intros Ha Hab Hb. unfold dquo. pose proof PREC_pos as HP.
  replace ONE with (chop_round (ONE * PREC)) by apply chop_round_exact.
  apply chop_round_mono; [apply Z.quot_pos; nia|].
  rewrite Z.quot_div_nonneg by nia. apply Z.div_le_upper_bound; [lia|]. prec; nia.
Qed.
(* truncated quotient then rounding: within (1 + 1/2) ulp of the exact ratio, stated without division:
   b * Quo(a,b) is within b * 1.5 ulp of a * 10^18 *)
Theorem dquo_bounds a b : 0 <= a -> 0 < b ->
  2 * (a * PREC) - 3 * b <= 2 * b * dquo a b <= 2 * (a * PREC) + b.
Proof.
  intros Ha Hb. unfold dquo. pose proof PREC_pos as HP.
  set (n := Z.quot (a * PREC * PREC) b).
  assert (Hn : n = a * PREC * PREC / b) by (unfold n; apply Z.quot_div_nonneg; nia).
  pose proof (Z.div_mod (a * PREC * PREC) b ltac:(lia)) as Hdm. pose proof (Z.mod_pos_bound (a * PREC * PREC) b Hb) as Hm.
  rewrite <- Hn in Hdm. pose proof (chop_round_bounds n) as Hc.
  assert (0 <= n) by (rewrite Hn; apply Z.div_pos; nia).
  (* b*n <= a*P*P < b*n + b ; 2n - P <= 2P*c <= 2n + P *)
  split.
  - assert (2 * b * n - b * PREC <= 2 * PREC * (b * chop_round n)) by nia.
    assert (2 * (a * PREC * PREC) - 2 * b - b * PREC <= 2 * PREC * (b * chop_round n)) by nia.
    assert (PREC * (2 * (a * PREC) - 3 * b) <= PREC * (2 * b * chop_round n)) by (prec; nia).
    apply Z.mul_le_mono_pos_l with (p := PREC); [exact HP|]. lia.
  - assert (2 * PREC * (b * chop_round n) <= 2 * b * n + b * PREC) by nia.
    assert (2 * PREC * (b * chop_round n) <= 2 * (a * PREC * PREC) + b * PREC) by nia.
    apply Z.mul_le_mono_pos_l with (p := PREC); [exact HP|]. lia.
Qed.

(* ---------- TruncateInt ---------- *)
Theorem dtrunc_bounds x : 0 <= x -> PREC * dtrunc x <= x < PREC * dtrunc x + PREC.
Proof.
  intros Hx. unfold dtrunc. rewrite Z.quot_div_nonneg by (prec; lia).
  pose proof (Z.div_mod x PREC ltac:(prec; lia)). pose proof (Z.mod_pos_bound x PREC PREC_pos). lia.
Qed.
Theorem dtrunc_of_int k r : 0 <= k -> 0 <= r < PREC -> dtrunc (k * PREC + r) = k.
Proof.
  intros Hk Hr. unfold dtrunc. rewrite Z.quot_div_nonneg by (prec; nia).
  rewrite Z.div_add_l by (prec; lia). rewrite Z.div_small by exact Hr. lia.
Qed.

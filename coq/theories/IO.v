(* IO.v — the line format shared with the Go harness: every operation and every
   record of an observed state is one line of integers.  [parse_op] reads an
   operation; [print_state] writes a state canonically (maps in key order);
   [parse_state] rebuilds a State from the lines the harness observed on the
   real implementation, so that the executable specifications of Spec*.v run on
   implementation traces as well as on model traces. *)
From Coq Require Import ZArith List Bool.
From Alliance Require Import Num KMap Types Monad Model Step.
Import ListNotations.
Open Scope Z_scope.

(* ---------- reading ---------- *)
Definition rd1 (l : list Z) : option (Z * list Z) :=
  match l with x :: r => Some (x, r) | [] => None end.

(* n items, each read by [f] *)
Fixpoint rdn {A} (f : list Z -> option (A * list Z)) (n : nat) (l : list Z) : option (list A * list Z) :=
  match n with
  | O => Some ([], l)
  | S n' => match f l with
            | Some (a, r) => match rdn f n' r with
                             | Some (xs, r') => Some (a :: xs, r')
                             | None => None
                             end
            | None => None
            end
  end.
(* a count followed by that many items *)
Definition rdlist {A} (f : list Z -> option (A * list Z)) (l : list Z) : option (list A * list Z) :=
  match l with n :: r => rdn f (Z.to_nat n) r | [] => None end.

Definition rd_pair (l : list Z) : option ((Z * Z) * list Z) :=
  match l with a :: b :: r => Some ((a, b), r) | _ => None end.
Definition rd_triple (l : list Z) : option ((Z * Z * Z) * list Z) :=
  match l with a :: b :: c :: r => Some ((a, b, c), r) | _ => None end.
Definition rd_rh (l : list Z) : option (RH * list Z) :=
  match l with a :: b :: c :: r => Some (mkRH a b c, r) | _ => None end.
Definition rd_opt (l : list Z) : option (option Z * list Z) :=
  match l with f :: v :: r => Some (if f =? 0 then None else Some v, r) | _ => None end.
Definition rd_redel (l : list Z) : option (Redel * list Z) :=
  match l with a :: b :: c :: d :: e :: r => Some (mkRedel a b c d e, r) | _ => None end.
Definition rd_undel (l : list Z) : option (Undel * list Z) :=
  match l with a :: b :: c :: d :: r => Some (mkUndel a b c d, r) | _ => None end.
Definition rd_sval (l : list Z) : option ((Z * SVal) * list Z) :=
  match l with v :: a :: b :: c :: r => Some ((v, mkSVal a b c), r) | _ => None end.
Definition rd_withdrawal (l : list Z) : option ((Z * Coins) * list Z) :=
  match l with
  | v :: r => match rdlist rd_pair r with
              | Some (c, r') => Some ((v, c), r')
              | None => None
              end
  | [] => None
  end.

Definition rd_msg (l : list Z) : option AllianceMsg :=
  match l with
  | au :: dn :: r =>
    match rd_opt r with Some (w, r) =>
    match rd_opt r with Some (lo, r) =>
    match rd_opt r with Some (hi, r) =>
    match rd_opt r with Some (tk, r) =>
    match rd_opt r with Some (rt, r) =>
    match r with
    | [iv] => Some (mkAllianceMsg au dn w lo hi tk rt iv)
    | _ => None
    end | None => None end | None => None end | None => None end | None => None end | None => None end
  | _ => None
  end.

Definition rd_asset (l : list Z) : option Asset :=
  match l with
  | [dn; w; lo; hi; tk; tok; vs; st; rt; iv; la; ini] =>
    Some (mkAsset dn w lo hi tk tok vs st rt iv la (negb (ini =? 0)))
  | _ => None
  end.

Definition parse_op (l : list Z) : option Op :=
  match l with
  | [1; t; h] => Some (OBeginBlock t h)
  | [2] => Some OEndBlock
  | [10; d; v; dn; a] => Some (ODelegate d v dn a)
  | [11; d; v; dn; a] => Some (OUndelegate d v dn a)
  | [12; d; v1; v2; dn; a] => Some (ORedelegate d v1 v2 dn a)
  | [13; d; v; dn] => Some (OClaim d v dn)
  | 20 :: r => option_map OCreateAlliance (rd_msg r)
  | 21 :: r => option_map OUpdateAlliance (rd_msg r)
  | [22; au; dn] => Some (ODeleteAlliance au dn)
  | [23; au; dl; iv; la] => Some (OUpdateParams au dl iv la)
  | [30; v; f] => Some (OHookSlash v f)
  | 50 :: r => match rdlist rd_withdrawal r with Some (w, []) => Some (EOracle w) | _ => None end
  | 40 :: r => match rdlist rd_sval r with
               | Some (vs, r') => match rdlist rd_pair r' with
                                  | Some (ds, []) => Some (EStaking vs ds)
                                  | _ => None
                                  end
               | None => None
               end
  | 41 :: r => match rdlist rd_triple r with
               | Some (bs, r') => match rdlist rd_pair r' with
                                  | Some (ss, []) => Some (EBank bs ss)
                                  | _ => None
                                  end
               | None => None
               end
  | [42] => Some EFlag
  | [43; v] => Some (ERemoveValInfo v)
  | [44; t] => Some (EUnbondingTime t)
  | [45; dl; iv; la] => Some (EParams dl iv la)
  | 46 :: r => option_map EGenesisAsset (rd_asset r)
  | _ => None
  end.

(* ---------- writing ---------- *)
Definition Zlen {A} (l : list A) : Z := Z.of_nat (length l).
Definition pr_rhs (l : list RH) : list Z :=
  Zlen l :: flat_map (fun h => [rh_denom h; rh_alliance h; rh_index h]) l.
Definition pr_coins (c : Coins) : list Z :=
  Zlen c :: flat_map (fun da => [fst da; snd da]) c.
Definition b2z (b : bool) : Z := if b then 1 else 0.

Definition pr_asset (a : Asset) : list Z :=
  [a_denom a; a_weight a; a_wmin a; a_wmax a; a_take a; a_tokens a; a_vshares a; a_start a;
   a_rate a; a_interval a; a_last a; b2z (a_init a)].

Definition print_state (s : State) : list (list Z) :=
  [[1; b2z (flag s); p_delay (params s); p_interval (params s); p_last (params s)]]
  ++ map (fun kv => 2 :: pr_asset (snd kv)) (assets s)
  ++ map (fun kv => 3 :: fst kv ++ pr_rhs (vi_hist (snd kv)) ++ pr_coins (vi_dshares (snd kv))
                      ++ pr_coins (vi_vshares (snd kv))) (valinfos s)
  ++ map (fun kv => 4 :: fst kv ++ [d_shares (snd kv); d_height (snd kv)] ++ pr_rhs (d_hist (snd kv)))
         (delegations s)
  ++ map (fun kv => let r := snd kv in 5 :: fst kv ++ [r_del r; r_src r; r_dst r; r_denom r; r_amount r])
         (redels s)
  ++ map (fun kv => 6 :: fst kv ++ Zlen (snd kv) ::
                    flat_map (fun r => [r_del r; r_src r; r_dst r; r_denom r; r_amount r]) (snd kv))
         (redelq s)
  ++ map (fun kv => 7 :: fst kv ++ Zlen (snd kv) ::
                    flat_map (fun u => [u_del u; u_val u; u_denom u; u_amount u]) (snd kv))
         (undelq s)
  ++ map (fun kv => 8 :: fst kv) (redelidx s)
  ++ map (fun kv => 9 :: fst kv) (undelidx s)
  ++ map (fun kv => 10 :: fst kv ++ sn_weight (snd kv) :: pr_rhs (sn_hist (snd kv))) (snapshots s)
  ++ map (fun kv => 11 :: fst kv ++ [snd kv]) (bank s)
  ++ map (fun kv => 12 :: fst kv ++ [snd kv]) (supply s)
  ++ map (fun kv => 13 :: fst kv ++ [sv_status (snd kv); sv_tokens (snd kv); sv_shares (snd kv)]) (svals s)
  ++ map (fun kv => 14 :: fst kv ++ [snd kv]) (sdels s).

(* ---------- rebuilding a state from observed lines ---------- *)
Definition parse_line (s : State) (l : list Z) : option State :=
  match l with
  | [1; f; dl; iv; la] => Some (set_flag (negb (f =? 0)) (set_params (mkParams dl iv la) s))
  | 2 :: r => match rd_asset r with
              | Some a => Some (set_assets (kset (assets s) [a_denom a] a) s)
              | None => None
              end
  | 3 :: v :: r =>
    match rdlist rd_rh r with Some (h, r) =>
    match rdlist rd_pair r with Some (ds, r) =>
    match rdlist rd_pair r with Some (vs, []) =>
      Some (set_valinfos (kset (valinfos s) [v] (mkValInfo h ds vs)) s)
    | _ => None end | None => None end | None => None end
  | 4 :: d :: v :: dn :: sh :: ht :: r =>
    match rdlist rd_rh r with
    | Some (h, []) => Some (set_delegations (kset (delegations s) [d; v; dn] (mkDelegation sh h ht)) s)
    | _ => None
    end
  | [5; d; dn; dst; ct; a; b; c; e; f] =>
    Some (set_redels (kset (redels s) [d; dn; dst; ct] (mkRedel a b c e f)) s)
  | 6 :: ct :: r =>
    match rdlist rd_redel r with
    | Some (es, []) => Some (set_redelq (kset (redelq s) [ct] es) s)
    | _ => None
    end
  | 7 :: ct :: d :: r =>
    match rdlist rd_undel r with
    | Some (es, []) => Some (set_undelq (kset (undelq s) [ct; d] es) s)
    | _ => None
    end
  | [8; a; b; c; d; e] => Some (set_redelidx (kset (redelidx s) [a; b; c; d; e] tt) s)
  | [9; a; b; c; d] => Some (set_undelidx (kset (undelidx s) [a; b; c; d] tt) s)
  | 10 :: dn :: v :: ht :: w :: r =>
    match rdlist rd_rh r with
    | Some (h, []) => Some (set_snapshots (kset (snapshots s) [dn; v; ht] (mkSnapshot w h)) s)
    | _ => None
    end
  | [11; a; d; b] => Some (put_bal a d b s)
  | [12; d; b] => Some (put_sup d b s)
  | [13; v; st; tk; sh] => Some (set_svals (kset (svals s) [v] (mkSVal st tk sh)) s)
  | [14; v; sh] => Some (set_sdels (kset (sdels s) [v] sh) s)
  | _ => None
  end.

(* context (time, height, unbonding time) is not part of the dump; it is copied
   from [ctx], the model state of the same step *)
Definition parse_state (ctx : State) (ls : list (list Z)) : option State :=
  fold_left (fun os l => match os with Some s => parse_line s l | None => None end) ls
    (Some (set_unbonding_time (unbonding_time ctx) (set_height (height ctx) (set_now (now ctx) init_state)))).

(* an observed state placed in the block context (time, height, unbonding time, the recorded
   distribution withdrawals the operation will see) of [ctx] *)
Definition with_ctx (ctx s : State) : State :=
  set_oracle (oracle ctx) (set_unbonding_time (unbonding_time ctx) (set_height (height ctx) (set_now (now ctx) s))).

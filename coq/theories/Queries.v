(* Queries.v — executable model of the read side of x/alliance and of the genesis
   round trip: the unbonding / redelegation / delegation queries of
   keeper/unbonding.go and keeper/grpc_query.go (C20) and ExportGenesis / InitGenesis of
   keeper/genesis.go (C18).  Definitions only. *)
From Coq Require Import ZArith List Bool.
From Alliance Require Import Num KMap Types Monad Model Step.
Import ListNotations.
Open Scope Z_scope.

(* ---------- C20: unbonding queries ---------- *)
(* one answer line: validator, completion time, amount, denom (types.UnbondingDelegation) *)
Definition UnbAnswer := (Z * Z * Z * Z)%type.
Definition bucket_of (s : State) (ct del : Z) : list Undel :=
  match kget (undelq s) [ct; del] with Some l => l | None => [] end.
Definition answers_of (ct v dn : Z) (l : list Undel) : list UnbAnswer :=
  map (fun u => (u_val u, ct, u_amount u, u_denom u))
      (filter (fun u => (u_val u =? v) && (u_denom u =? dn)) l).

(* GetUnbondings(denom, delegator, validator): the per-validator index keys of the validator
   whose suffix is (denom, delegator), in key order; for each, the entries of the bucket
   (completion time, delegator) that belong to this validator and denom *)
Definition q_unbondings (s : State) (dn del v : Z) : list UnbAnswer :=
  flat_map (fun ku => match fst ku with
                      | [v'; ct; dn'; del'] =>
                        if (v' =? v) && (dn' =? dn) && (del' =? del) then answers_of ct v dn (bucket_of s ct del) else []
                      | _ => [] end) (undelidx s).
(* GetUnbondingsByDenomAndDelegator: every index key with that suffix, any validator *)
Definition q_unbondings_by_denom (s : State) (dn del : Z) : list UnbAnswer :=
  flat_map (fun ku => match fst ku with
                      | [v'; ct; dn'; del'] =>
                        if (dn' =? dn) && (del' =? del) then answers_of ct v' dn (bucket_of s ct del) else []
                      | _ => [] end) (undelidx s).
(* GetUnbondingsByDelegator: the whitelisted assets in store order *)
Definition q_unbondings_by_delegator (s : State) (del : Z) : list UnbAnswer :=
  flat_map (fun ka => q_unbondings_by_denom s (a_denom (snd ka)) del) (assets s).

(* ---------- C20: redelegation queries (records under a key prefix, in key order) ---------- *)
(* delegator, source, destination, denom, amount, completion time (types.RedelegationEntry) *)
Definition RedAnswer := (Z * Z * Z * Z * Z * Z)%type.
Definition red_answer (kr : Key * Redel) : list RedAnswer :=
  match fst kr with
  | [_; _; _; ct] => let r := snd kr in [(r_del r, r_src r, r_dst r, r_denom r, r_amount r, ct)]
  | _ => []
  end.
Definition q_redelegations (s : State) (del dn : Z) : list RedAnswer :=
  flat_map red_answer (kfilter (kprefix [del; dn]) (redels s)).
Definition q_redelegations_by_delegator (s : State) (del : Z) : list RedAnswer :=
  flat_map red_answer (kfilter (kprefix [del]) (redels s)).

(* ---------- C18: genesis ---------- *)
(* what ExportGenesis writes: every primary record; no index, no time queue of redelegations, no flag *)
Record Genesis := mkGenesis {
  g_params : Params;
  g_assets : KMap Asset;
  g_valinfos : KMap ValInfo;
  g_delegations : KMap Delegation;
  g_redels : KMap Redel;                 (* keyed (delegator, denom, destination, completion time) *)
  g_undels : KMap (list Undel);          (* keyed (completion time, delegator) *)
  g_snapshots : KMap Snapshot
}.
Definition export_genesis (s : State) : Genesis :=
  mkGenesis (params s) (assets s) (valinfos s) (delegations s) (redels s) (undelq s) (snapshots s).

Definition ok_or {A} (r : Res A) (dflt : State) : State :=
  match r with Ok _ s' => s' | Err _ _ => dflt | Panic _ _ => dflt end.

(* InitGenesis into an emptied module store (bank, staking and the block context stay) *)
Definition import_redel (st : State) (kr : Key * Redel) : State :=
  match fst kr with
  | [_; _; _; ct] =>
    let r := snd kr in
    ok_or ((add_redelegation (r_del r) (r_src r) (r_dst r) (r_denom r) (r_amount r) ct ;;;
            queue_redelegation (r_del r) (r_src r) (r_dst r) (r_denom r) (r_amount r) ct) st) st
  | _ => st
  end.
Definition import_undel (st : State) (kb : Key * list Undel) : State :=
  match fst kb, snd kb with
  | [ct; _], e0 :: _ =>
    let del := u_del e0 in   (* the delegator is read from the first entry, not from the key *)
    fold_left (fun st u => set_undelidx (kset (undelidx st) [u_val u; ct; u_denom u; del] tt) st) (snd kb)
      (set_undelq (kset (undelq st) [ct; del] (snd kb)) st)
  | _, _ => st
  end.
Definition import_genesis (g : Genesis) (s : State) : State :=
  let base := set_snapshots (g_snapshots g) (set_delegations (g_delegations g) (set_valinfos (g_valinfos g)
              (set_assets (g_assets g) (set_params (g_params g)
              (set_flag false (set_redelidx [] (set_redelq [] (set_redels [] (set_undelidx [] (set_undelq [] s)))))))))) in
  fold_left import_undel (g_undels g) (fold_left import_redel (g_redels g) base).
Definition reimport (s : State) : State := import_genesis (export_genesis s) s.

(* ---------- the line format of query records (trace tag Q): kind, arguments -> flattened answers ---------- *)
Definition flat_unb (l : list UnbAnswer) : list Z :=
  flat_map (fun a => match a with (v, ct, amt, dn) => [v; ct; amt; dn] end) l.
Definition flat_red (l : list RedAnswer) : list Z :=
  flat_map (fun a => match a with (del, src, dst, dn, amt, ct) => [del; src; dst; dn; amt; ct] end) l.
Definition reported (s : State) (del v dn : Z) : Z :=
  match kget (delegations s) [del; v; dn], kget (assets s) [dn] with
  | Some d, Some a => del_tokens d (match kget (valinfos s) [v] with Some vi => vi | None => empty_valinfo end) a
  | _, _ => 0
  end.
Definition answer_query (s : State) (q : list Z) : option (list Z) :=
  match q with
  | [1; dn; del; v] => Some (flat_unb (q_unbondings s dn del v))
  | [2; dn; del] => Some (flat_unb (q_unbondings_by_denom s dn del))
  | [3; del] => Some (flat_unb (q_unbondings_by_delegator s del))
  | [4; del; dn] => Some (flat_red (q_redelegations s del dn))
  | [5; del] => Some (flat_red (q_redelegations_by_delegator s del))
  (* sdk.NewCoin panics on a negative amount: the handler does not answer (-1) *)
  | [6; del; v; dn] => let r := reported s del v dn in Some [if r <? 0 then -1 else r]
  | _ => None
  end.

(* CoinFacts.v — sdk.DecCoins as denom-sorted association lists: the amount of a denom after
   adding / subtracting a single coin. *)
From Coq Require Import ZArith List Bool Lia Sorting.Sorted.
From Alliance Require Import Num KMap.
Import ListNotations.
Open Scope Z_scope.

Definition csorted (c : Coins) : Prop := StronglySorted (fun a b => fst a < fst b) c.

Lemma csorted_nil : csorted []. Proof. constructor. Qed.
Lemma csorted_inv da c : csorted (da :: c) -> csorted c /\ Forall (fun b => fst da < fst b) c.
Proof. intros H; inversion H; subst; auto. Qed.

Lemma camount_above d c : Forall (fun b => d < fst b) c -> camount c d = 0.
Proof.
  induction c as [|[d' a'] c IH]; intros H; cbn; [reflexivity|]. inversion H as [|? ? H0 Hc]; subst. cbn in H0.
  assert (E : d =? d' = false) by (apply Z.eqb_neq; lia). rewrite E. apply IH; exact Hc.
Qed.

Lemma cadd1_keys_above d0 c d a : d0 < d -> Forall (fun b => d0 < fst b) c -> Forall (fun b => d0 < fst b) (cadd1 c d a).
Proof.
  intros Hd Hc; induction c as [|[d' a'] c IH]; cbn.
  - destruct (a =? 0); constructor; [exact Hd | constructor].
  - inversion Hc as [|? ? H0 Hc']; subst. cbn in H0.
    destruct (d <? d'); [destruct (a =? 0); [exact Hc | constructor; [exact Hd | exact Hc]]|].
    destruct (d =? d'); [destruct (a + a' =? 0); [exact Hc' | constructor; [exact Hd | exact Hc']]|].
    constructor; [exact H0 | apply IH; exact Hc'].
Qed.

Lemma csorted_cadd1 c d a : csorted c -> csorted (cadd1 c d a).
Proof.
  intros Hs; induction c as [|[d' a'] c IH]; cbn.
  - destruct (a =? 0); [constructor | constructor; constructor].
  - apply csorted_inv in Hs. destruct Hs as [Hs Hall]. cbn in Hall.
    destruct (d <? d') eqn:E1.
    + apply Z.ltb_lt in E1. destruct (a =? 0); [constructor; assumption|].
      constructor; [constructor; assumption|]. constructor; [exact E1|]. eapply Forall_impl; [|exact Hall]. intros b Hb; cbn in *; lia.
    + apply Z.ltb_ge in E1. destruct (d =? d') eqn:E2.
      * apply Z.eqb_eq in E2. subst d'. destruct (a + a' =? 0); [exact Hs | constructor; assumption].
      * apply Z.eqb_neq in E2. constructor; [apply IH; exact Hs|]. apply cadd1_keys_above; [cbn; lia | exact Hall].
Qed.

Lemma camount_cadd1 c d a d' : csorted c -> camount (cadd1 c d a) d' = camount c d' + (if d' =? d then a else 0).
Proof.
  intros Hs; induction c as [|[d0 a0] c IH]; cbn [cadd1].
  - destruct (a =? 0) eqn:E0; cbn [camount].
    + apply Z.eqb_eq in E0. subst. destruct (d' =? d); reflexivity.
    + cbn. destruct (d' =? d); lia.
  - apply csorted_inv in Hs. destruct Hs as [Hs Hall]. cbn in Hall.
    destruct (d <? d0) eqn:E1.
    + apply Z.ltb_lt in E1. destruct (a =? 0) eqn:E0.
      * apply Z.eqb_eq in E0. subst. destruct (d' =? d); lia.
      * cbn [camount fst snd]. destruct (d' =? d) eqn:Ed; [|lia].
        apply Z.eqb_eq in Ed. subst d'. assert (E : d =? d0 = false) by (apply Z.eqb_neq; lia). rewrite E.
        rewrite camount_above; [lia|]. eapply Forall_impl; [|exact Hall]. intros b Hb; cbn in *; lia.
    + apply Z.ltb_ge in E1. destruct (d =? d0) eqn:E2.
      * apply Z.eqb_eq in E2. subst d0. destruct (a + a0 =? 0) eqn:E3.
        -- apply Z.eqb_eq in E3. cbn [camount fst snd]. destruct (d' =? d) eqn:Ed.
           ++ apply Z.eqb_eq in Ed. subst d'. rewrite camount_above by exact Hall. lia.
           ++ lia.
        -- cbn [camount fst snd]. destruct (d' =? d); lia.
      * cbn [camount fst snd]. destruct (d' =? d0) eqn:Ed0.
        -- apply Z.eqb_eq in Ed0. subst d'. apply Z.eqb_neq in E2. assert (E : d0 =? d = false) by (apply Z.eqb_neq; lia). rewrite E. lia.
        -- apply IH; exact Hs.
Qed.

(* subtracting the single coin (d, a): csub c (cadd1 [] d a) *)
Lemma csub1_eq c d a : csub c (cadd1 [] d a) = cadd1 c d (- a) \/ (a = 0 /\ csub c (cadd1 [] d a) = c).
Proof.
  unfold csub, cadd, cneg. cbn [cadd1]. destruct (a =? 0) eqn:E0.
  - right. apply Z.eqb_eq in E0. split; [exact E0 | reflexivity].
  - left. cbn. reflexivity.
Qed.
Lemma csorted_csub1 c d a : csorted c -> csorted (csub c (cadd1 [] d a)).
Proof. intros Hs. destruct (csub1_eq c d a) as [->|[_ ->]]; [apply csorted_cadd1; exact Hs | exact Hs]. Qed.
Lemma camount_csub1 c d a d' : csorted c -> camount (csub c (cadd1 [] d a)) d' = camount c d' - (if d' =? d then a else 0).
Proof.
  intros Hs. destruct (csub1_eq c d a) as [->|[-> ->]].
  - rewrite camount_cadd1 by exact Hs. destruct (d' =? d); lia.
  - destruct (d' =? d); lia.
Qed.

Lemma csorted_filter (f : Z * Z -> bool) c : csorted c -> csorted (filter f c).
Proof.
  intros Hs; induction c as [|da c IH]; cbn; [constructor|]. apply csorted_inv in Hs. destruct Hs as [Hs Hall].
  destruct (f da); [|apply IH; exact Hs]. constructor; [apply IH; exact Hs|].
  apply Forall_forall. intros b Hb. apply filter_In in Hb. destruct Hb as [Hb _]. rewrite Forall_forall in Hall. apply Hall; exact Hb.
Qed.

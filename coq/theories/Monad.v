(* Monad.v — state / error / panic monad of the model.  The state reached at
   the failure point is kept (DESIGN.md 3.2): staking logs and swallows an
   error returned by a hook, so what a failed callback leaves behind matters. *)
From Coq Require Import ZArith List Bool.
From Alliance Require Import Num KMap Types.
Import ListNotations.
Open Scope Z_scope.

Inductive Res (A : Type) : Type :=
| Ok (a : A) (s : State)
| Err (e : Z) (s : State)
| Panic (e : Z) (s : State).
Arguments Ok {A} a s.
Arguments Err {A} e s.
Arguments Panic {A} e s.

Definition M (A : Type) := State -> Res A.

Definition ret {A} (a : A) : M A := fun s => Ok a s.
Definition bind {A B} (m : M A) (f : A -> M B) : M B :=
  fun s => match m s with
           | Ok a s' => f a s'
           | Err e s' => Err e s'
           | Panic e s' => Panic e s'
           end.
Definition fail {A} (e : Z) : M A := fun s => Err e s.
Definition panic {A} (e : Z) : M A := fun s => Panic e s.
Definition gets {A} (f : State -> A) : M A := fun s => Ok (f s) s.
Definition modify (f : State -> State) : M unit := fun s => Ok tt (f s).

Notation "x <- m ;; k" := (bind m (fun x => k))
  (at level 61, m at next level, right associativity).
Notation "' pat <- m ;; k" := (bind m (fun x => match x with pat => k end))
  (at level 61, pat pattern, m at next level, right associativity).
Notation "m ;;; k" := (bind m (fun _ => k))
  (at level 61, right associativity).

Fixpoint mfor {A} (l : list A) (f : A -> M unit) : M unit :=
  match l with
  | [] => ret tt
  | x :: l' => f x ;;; mfor l' f
  end.

(* fold with an accumulator *)
Fixpoint mfold {A B} (l : list A) (acc : B) (f : B -> A -> M B) : M B :=
  match l with
  | [] => ret acc
  | x :: l' => acc' <- f acc x ;; mfold l' acc' f
  end.

Definition opt_or_panic {A} (e : Z) (o : option A) : M A :=
  match o with Some a => ret a | None => panic e end.
Definition opt_or_fail {A} (e : Z) (o : option A) : M A :=
  match o with Some a => ret a | None => fail e end.

(* error codes (compared by class only; the code is kept for diagnostics) *)
Definition E_UNKNOWN_ASSET := 1.
Definition E_INSUFFICIENT_FUNDS := 2.
Definition E_NO_VALIDATOR := 3.
Definition E_NO_DELEGATION := 4.
Definition E_INSUFFICIENT_SHARES := 5.
Definition E_INSUFFICIENT_TOKENS := 6.
Definition E_TRANSITIVE := 7.
Definition E_SAME_VALIDATOR := 8.
Definition E_INVALID_ARG := 9.
Definition E_UNAUTHORIZED := 10.
Definition E_ALREADY_EXISTS := 11.
Definition E_WEIGHT_OOB := 12.
Definition E_ACTIVE_DELEGATIONS := 13.
Definition E_BAD_FRACTION := 14.
Definition E_MISSING_RECORD := 15.
Definition E_STAKING := 16.
Definition E_ORACLE := 17.          (* the recorded environment does not fit the model's calls *)
Definition E_NEG_DURATION := 18.
Definition P_DIV_ZERO := 101.
Definition P_NEG_COIN := 102.
Definition P_OVERFLOW := 103.
Definition P_NIL := 104.
Definition P_STAKING := 105.
Definition P_DIV_ZERO_INTERVAL := 106.   (* Go integer division by a zero TakeRateClaimInterval *)

(* The keeper's IterateAllianceValidatorInfo pattern
     err = k.Iterate...(func(...) bool { ...; x, err = f(); if err != nil { return true } ... })
   assigns the iterator's own (nil) result to [err] after the callback set it:
   an error inside the callback stops the iteration and is then lost.  The state
   reached at the error is kept and the caller carries on.  Panics propagate. *)
Fixpoint mfor_swallow {A} (l : list A) (f : A -> M unit) : M unit :=
  match l with
  | [] => ret tt
  | x :: l' => fun s => match f x s with
                        | Ok _ s' => mfor_swallow l' f s'
                        | Err _ s' => Ok tt s'
                        | Panic e s' => Panic e s'
                        end
  end.
Fixpoint mfold_swallow {A B} (l : list A) (acc : B) (f : B -> A -> M B) : M B :=
  match l with
  | [] => ret acc
  | x :: l' => fun s => match f acc x s with
                        | Ok acc' s' => mfold_swallow l' acc' f s'
                        | Err _ s' => Ok acc s'
                        | Panic e s' => Panic e s'
                        end
  end.

(* Correspondence driver.
   usage: driver <trace> <property-number> <projection-tags, comma separated | all>

   Replays the operations the Go harness executed on the real implementation
   through the extracted model.  After every compared step:
     - result classes must agree;
     - the state lines whose tag belongs to the projection pi_X must agree exactly
       (no tolerance); a difference only outside pi_X is counted, not reported;
     - after any difference the model is re-synchronised to the observed state
       (IO.parse_state), so that one divergence is reported once and the rest of
       the history is still explored;
     - the executable specification Spec.check_step of property X is evaluated on
       the model's transition and on the implementation's transition.
   Trace records:  H <id> | O <ints> | R <class> <cmp> | S <ints> | E | # text | M .. | A ..
   Output: OK / MISMATCH / PROPFAIL impl|model <hist> step=<k> sig=<X>.<clause> / SUMMARY *)
open Model

let rec pos_of_int n = if n = 1 then XH else if n land 1 = 0 then XO (pos_of_int (n lsr 1)) else XI (pos_of_int (n lsr 1))
let z_of_int n = if n = 0 then Z0 else if n > 0 then Zpos (pos_of_int n) else Zneg (pos_of_int (-n))
let z10_9 = z_of_int 1000000000
let z_of_string (s : string) : z =
  let neg = String.length s > 0 && s.[0] = '-' in
  let s = if neg then String.sub s 1 (String.length s - 1) else s in
  let n = String.length s in
  let acc = ref Z0 in
  let i = ref 0 in
  let first = n mod 9 in
  if first > 0 then (acc := z_of_int (int_of_string (String.sub s 0 first)); i := first);
  while !i < n do
    acc := Z.add (Z.mul !acc z10_9) (z_of_int (int_of_string (String.sub s !i 9)));
    i := !i + 9
  done;
  if neg then Z.opp !acc else !acc

let rec int_of_pos = function XH -> 1 | XO p -> 2 * int_of_pos p | XI p -> 2 * int_of_pos p + 1
let int_of_z = function Z0 -> 0 | Zpos p -> int_of_pos p | Zneg p -> - (int_of_pos p)
let rec string_of_z (x : z) : string =
  match x with
  | Z0 -> "0"
  | Zneg p -> "-" ^ string_of_z (Zpos p)
  | Zpos _ ->
    let rec go x acc =
      match x with
      | Z0 -> acc
      | _ ->
        let (q, r) = Z.div_eucl x z10_9 in
        let ri = (match r with Z0 -> 0 | Zpos p -> int_of_pos p | Zneg _ -> 0) in
        (match q with
         | Z0 -> string_of_int ri ^ acc
         | _ -> go q (Printf.sprintf "%09d" ri ^ acc))
    in go x ""

let line_to_string l = String.concat " " (List.map string_of_z l)
let split_ws s = List.filter (fun t -> t <> "") (String.split_on_char ' ' s)
let tag_of (l : z list) = match l with t :: _ -> int_of_z t | [] -> -1

let () =
  let file = Sys.argv.(1) in
  let prop = if Array.length Sys.argv > 2 then int_of_string Sys.argv.(2) else 0 in
  let proj =
    if Array.length Sys.argv > 3 && Sys.argv.(3) <> "all" then
      Some (List.map int_of_string (List.filter (fun t -> t <> "") (String.split_on_char ',' Sys.argv.(3))))
    else None in
  let verbose = Array.length Sys.argv > 4 && Sys.argv.(4) = "-v" in
  let in_proj t = match proj with None -> true | Some l -> List.mem t l in
  let zprop = z_of_int prop in
  let ic = open_in file in
  let st = ref init_state in          (* model state *)
  let impl_prev = ref None in         (* last observed implementation state *)
  let model_prev = ref init_state in  (* model state before the current op *)
  let cur_op = ref None in
  let hid = ref "" in
  let stepno = ref 0 in
  let bad = ref false in
  let cur_class = ref Z0 in
  let impl_class = ref Z0 in
  let cmp = ref false in
  let lines = ref [] in
  let nhist = ref 0 and nbad = ref 0 and nsteps = ref 0 and ncmp = ref 0 and noutside = ref 0
  and nresync = ref 0 and nchecked = ref 0 and nqueries = ref 0 and nreimports = ref 0 and nprobes = ref 0 in
  let glines = ref [] in
  let finish () =
    if !hid <> "" then begin
      incr nhist;
      if !bad then incr nbad else Printf.printf "OK %s steps=%d\n" !hid !stepno
    end in
  let mismatch kind detail =
    bad := true;
    Printf.printf "MISMATCH %s step=%d kind=%s %s\n" !hid !stepno kind detail in
  (try
    while true do
      let l = input_line ic in
      let n = String.length l in
      if n > 0 then begin
        let tag = l.[0] in
        let rest = if n > 2 then String.sub l 2 (n - 2) else "" in
        match tag with
        | 'H' -> finish (); hid := rest; st := init_state; stepno := 0; bad := false; impl_prev := None
        | 'O' ->
          incr stepno; incr nsteps;
          let zs = List.map z_of_string (split_ws rest) in
          (match parse_op zs with
           | None -> mismatch "parse" ("op: " ^ rest); cur_op := None
           | Some op ->
             model_prev := !st;
             let (s', c) = step !st op in
             st := s'; cur_class := c; cur_op := Some op;
             if verbose then Printf.printf "  step %d op %s -> model class %s\n" !stepno rest (string_of_z c))
        | 'R' ->
          (match split_ws rest with
           | [c; m] -> impl_class := z_of_string c; cmp := (m = "1"); lines := []
           | _ -> mismatch "parse" ("R: " ^ rest))
        | 'S' -> if !cmp then lines := List.map z_of_string (split_ws rest) :: !lines
        | 'E' ->
          (match !cur_op with
           | None -> ()
           | Some op ->
             if !cur_class <> !impl_class then begin
               mismatch "class" (Printf.sprintf "model=%s impl=%s" (string_of_z !cur_class) (string_of_z !impl_class))
             end;
             if !cmp then begin
               incr ncmp;
               let impl = List.rev !lines in
               let model = print_state !st in
               let differs = model <> impl in
               if differs then begin
                 let only_model = List.filter (fun x -> not (List.mem x impl)) model in
                 let only_impl = List.filter (fun x -> not (List.mem x model)) impl in
                 let inside = List.exists (fun x -> in_proj (tag_of x)) (only_model @ only_impl) in
                 if inside || (only_model = [] && only_impl = []) then
                   mismatch "state" (Printf.sprintf "model-only={%s} impl-only={%s}"
                     (String.concat " | " (List.map line_to_string (List.filter (fun x -> in_proj (tag_of x)) only_model)))
                     (String.concat " | " (List.map line_to_string (List.filter (fun x -> in_proj (tag_of x)) only_impl))))
                 else incr noutside
               end;
               (* the implementation's own transition, for the executable specification *)
               let impl_state = parse_state !st impl in
               (match impl_state with
                | None -> mismatch "parse" "state dump"
                | Some is ->
                  (match !impl_prev with
                   | Some ip when prop > 0 ->
                     incr nchecked;
                     let fi = check_step zprop (with_ctx !model_prev ip) op !impl_class is in
                     let fm = check_step zprop !model_prev op !cur_class !st in
                     (* label: the model's own error code of this operation (0 = the model succeeds) *)
                     let ec = if (fi <> [] || fm <> []) && (prop = 5 || prop = 8 || prop = 17)
                              then ".e" ^ string_of_z (step_err !model_prev op) else "" in
                     if prop = 4 && fi <> [] && Sys.getenv_opt "DRIVER_DEBUG" <> None then
                       List.iter (fun l -> Printf.printf "DETAIL %s step=%d %s\n" !hid !stepno (line_to_string l))
                         (c04_detail (with_ctx !model_prev ip) op is);
                     List.iter (fun code ->
                       Printf.printf "PROPFAIL impl %s step=%d sig=C%02d.%s%s\n" !hid !stepno prop (string_of_z code) ec) fi;
                     List.iter (fun code ->
                       Printf.printf "PROPFAIL model %s step=%d sig=C%02d.%s%s\n" !hid !stepno prop (string_of_z code) ec) fm
                   | _ -> ());
                  impl_prev := Some is;
                  if differs || !cur_class <> !impl_class then begin
                    incr nresync;
                    st := is
                  end)
             end else begin
               (* environment bookkeeping steps without a dump: the specification sees the
                  transition as part of the next compared step; keep impl_prev as is *)
               ()
             end)
        | 'P' ->
          (* a probe the harness ran on a discarded branch of the state just compared:
             P <prop> <class> <expect-fail> # <recorded withdrawals (op 50)> # <operation> *)
          (match String.split_on_char '#' rest with
           | [hd; orc; opl] ->
             (match List.map int_of_string (split_ws hd) with
              | [pprop; pclass; pexp] when pprop = prop ->
                (match parse_op (List.map z_of_string (split_ws orc)), parse_op (List.map z_of_string (split_ws opl)) with
                 | Some o1, Some o2 ->
                   incr nprobes;
                   let (s1, _) = step !st o1 in
                   let (_, c) = step s1 o2 in
                   let mclass = int_of_z c in
                   let kind = (match split_ws opl with k :: _ -> k | [] -> "?") in
                   let code = string_of_z (step_err s1 o2) in
                   if (mclass = 0) <> (pclass = 0) then
                     mismatch "probe" (Printf.sprintf "op={%s} model-class=%d impl-class=%d model-code=%s" opl mclass pclass code);
                   let bad_impl = if pexp = 1 then pclass = 0 else pclass <> 0 in
                   let bad_model = if pexp = 1 then mclass = 0 else mclass <> 0 in
                   let sg = Printf.sprintf "C%02d.p%s%s.e%s" prop kind (if pexp = 1 then "x" else "") code in
                   if bad_impl then Printf.printf "PROPFAIL impl %s step=%d sig=%s\n" !hid !stepno sg;
                   if bad_model then Printf.printf "PROPFAIL model %s step=%d sig=%s\n" !hid !stepno sg
                 | _, _ -> mismatch "parse" ("probe: " ^ rest))
              | _ -> ())
           | _ -> ())
        | 'Q' ->
          (* a query answered by the real application on the state just compared *)
          (match String.index_opt rest ';' with
           | None -> ()
           | Some i ->
             let q = List.map z_of_string (split_ws (String.sub rest 0 i)) in
             let ans = List.map z_of_string (split_ws (String.sub rest (i + 1) (String.length rest - i - 1))) in
             incr nqueries;
             (match answer_query !st q with
              | None -> mismatch "query" ("unknown query " ^ rest)
              | Some m ->
                if m <> ans then
                  mismatch "query" (Printf.sprintf "q={%s} model={%s} impl={%s}" (line_to_string q) (line_to_string m) (line_to_string ans))))
        | 'G' ->
          if rest = "" || l = "GE" then begin
            (* end of the re-imported module store: compare with the model's re-import *)
            let impl = List.rev !glines in
            glines := [];
            let model = List.filter (fun x -> tag_of x <= 10) (print_state (reimport !st)) in
            incr nreimports;
            if model <> impl then begin
              let only_model = List.filter (fun x -> not (List.mem x impl)) model in
              let only_impl = List.filter (fun x -> not (List.mem x model)) impl in
              mismatch "reimport" (Printf.sprintf "model-only={%s} impl-only={%s}"
                (String.concat " | " (List.map line_to_string only_model))
                (String.concat " | " (List.map line_to_string only_impl)))
            end
          end else
            glines := List.map z_of_string (split_ws rest) :: !glines
        | _ -> ()
      end
    done
  with End_of_file -> ());
  finish ();
  close_in ic;
  Printf.printf "SUMMARY histories=%d mismatching=%d steps=%d compared=%d outside=%d resync=%d checked=%d queries=%d reimports=%d probes=%d\n"
    !nhist !nbad !nsteps !ncmp !noutside !nresync !nchecked !nqueries !nreimports !nprobes

(* Correspondence driver: replays the operations the Go harness executed on the
   real implementation through the extracted model and compares result classes
   and canonical state dumps line by line (exactly; no tolerance).
   Trace format (one record per line):
     H <id>            start of a history (model state := init_state)
     O <ints>          operation (IO.parse_op)
     R <class> <cmp>   result class observed on the implementation; cmp=1: state lines follow
     S <ints>          one line of the implementation's state dump (IO.print_state format)
     E                 end of step: compare
   Output: one line per history "OK <id> steps=<n>" or
     "MISMATCH <id> step=<k> kind=<class|state|parse> ..." *)
open Model

let rec pos_of_int n = if n = 1 then XH else if n land 1 = 0 then XO (pos_of_int (n lsr 1)) else XI (pos_of_int (n lsr 1))
let z_of_int n = if n = 0 then Z0 else if n > 0 then Zpos (pos_of_int n) else Zneg (pos_of_int (-n))
let z10_9 = z_of_int 1000000000
(* decimal string -> Z, nine digits at a time *)
let z_of_string (s : string) : z =
  let neg = String.length s > 0 && s.[0] = '-' in
  let s = if neg then String.sub s 1 (String.length s - 1) else s in
  let n = String.length s in
  let acc = ref Z0 in
  let i = ref 0 in
  let first = n mod 9 in
  if first > 0 then (acc := z_of_int (int_of_string (String.sub s 0 first)); i := first);
  while !i < n do
    acc := Z.add (Z.mul !acc z10_9) (z_of_int (int_of_string (String.sub s !i 9)));
    i := !i + 9
  done;
  if neg then Z.opp !acc else !acc

let rec int_of_pos = function XH -> 1 | XO p -> 2 * int_of_pos p | XI p -> 2 * int_of_pos p + 1
let rec string_of_z (x : z) : string =
  match x with
  | Z0 -> "0"
  | Zneg p -> "-" ^ string_of_z (Zpos p)
  | Zpos _ ->
    let rec go x acc =
      match x with
      | Z0 -> acc
      | _ ->
        let (q, r) = Z.div_eucl x z10_9 in
        let ri = (match r with Z0 -> 0 | Zpos p -> int_of_pos p | Zneg _ -> 0) in
        (match q with
         | Z0 -> string_of_int ri ^ acc
         | _ -> go q (Printf.sprintf "%09d" ri ^ acc))
    in go x ""

let line_to_string l = String.concat " " (List.map string_of_z l)

let split_ws s = List.filter (fun t -> t <> "") (String.split_on_char ' ' s)

let () =
  let file = Sys.argv.(1) in
  let verbose = Array.length Sys.argv > 2 && Sys.argv.(2) = "-v" in
  let ic = open_in file in
  let st = ref init_state in
  let hid = ref "" in
  let stepno = ref 0 in
  let dead = ref false in        (* history already diverged *)
  let cur_class = ref Z0 in
  let impl_class = ref Z0 in
  let cmp = ref false in
  let lines = ref [] in
  let nhist = ref 0 and nbad = ref 0 and nsteps = ref 0 and ncmp = ref 0 in
  let finish () =
    if !hid <> "" then begin
      incr nhist;
      if not !dead then Printf.printf "OK %s steps=%d\n" !hid !stepno
    end in
  let mismatch kind detail =
    if not !dead then begin
      dead := true; incr nbad;
      Printf.printf "MISMATCH %s step=%d kind=%s %s\n" !hid !stepno kind detail
    end in
  (try
    while true do
      let l = input_line ic in
      let n = String.length l in
      if n > 0 then begin
        let tag = l.[0] in
        let rest = if n > 2 then String.sub l 2 (n - 2) else "" in
        match tag with
        | 'H' -> finish (); hid := rest; st := init_state; stepno := 0; dead := false
        | 'O' ->
          incr stepno; incr nsteps;
          if not !dead then begin
            let zs = List.map z_of_string (split_ws rest) in
            match parse_op zs with
            | None -> mismatch "parse" ("op: " ^ rest)
            | Some op ->
              let (s', c) = step !st op in
              st := s'; cur_class := c;
              if verbose then Printf.printf "  step %d op %s -> model class %s\n" !stepno rest (string_of_z c)
          end
        | 'R' ->
          (match split_ws rest with
           | [c; m] -> impl_class := z_of_string c; cmp := (m = "1"); lines := []
           | _ -> mismatch "parse" ("R: " ^ rest))
        | 'S' -> if not !dead && !cmp then lines := List.map z_of_string (split_ws rest) :: !lines
        | 'E' ->
          if not !dead then begin
            if !cur_class <> !impl_class then
              mismatch "class" (Printf.sprintf "model=%s impl=%s" (string_of_z !cur_class) (string_of_z !impl_class))
            else if !cmp then begin
              incr ncmp;
              let impl = List.rev !lines in
              let model = print_state !st in
              (* lines are compared as sets keyed by position after removing the common ones *)
              let only_model = List.filter (fun x -> not (List.mem x impl)) model in
              let only_impl = List.filter (fun x -> not (List.mem x model)) impl in
              if only_model <> [] || only_impl <> [] || List.length model <> List.length impl then
                mismatch "state" (Printf.sprintf "model-only={%s} impl-only={%s}"
                  (String.concat " | " (List.map line_to_string only_model))
                  (String.concat " | " (List.map line_to_string only_impl)))
              else if model <> impl then
                mismatch "state" "same lines in a different order"
            end
          end
        | _ -> ()
      end
    done
  with End_of_file -> ());
  finish ();
  close_in ic;
  Printf.printf "SUMMARY histories=%d mismatching=%d steps=%d compared=%d\n" !nhist !nbad !nsteps !ncmp
